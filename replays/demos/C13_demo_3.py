"""C13 demo 3: the worker's exception does not always reach the caller as the same type.

Property: "An exception raised inside any sub-environment during reset, step or a remote call
reaches the caller as the same exception type ... and in every case close() returns promptly".

_async_worker puts `(index, type, INSTANCE, trace)` on the error queue (line 957-959) and
_raise_if_errors re-raises with `raise exctype(value)` (line 498), i.e. it calls the exception
class with ONE argument - the original exception instance.

  A. built-in UnicodeDecodeError (5-argument constructor) raised in step()  -> caller gets TypeError
  B. user exception with a 2-argument constructor                            -> caller gets TypeError
  C. exception that pickles but cannot be unpickled (args != ctor signature; the classic
     `super().__init__(f"{code}:{detail}")`) -> error_queue.get() raises TypeError inside
     _raise_if_errors BEFORE the state is reset: _state stays WAITING_STEP with all replies already
     consumed, so the following close() blocks forever in step_wait -> pipe.recv().
  D. exception whose instance is not picklable (holds a lambda) -> the queue feeder thread of the
     worker drops it, the parent blocks forever in error_queue.get(): step() hangs.

Exit 1 on any violation, 0 otherwise.
"""
import os
import sys
import threading
import time
import warnings

import gymnasium
import numpy as np
from gymnasium import spaces
from pettingzoo import ParallelEnv

from agilerl.vector.pz_async_vec_env import AsyncPettingZooVecEnv

gymnasium.logger.min_level = 50
warnings.filterwarnings("ignore")
PROMPT = 3.0


class TwoArgError(Exception):
    def __init__(self, code, detail):
        super().__init__(code, detail)


class FormattedError(Exception):
    def __init__(self, code, detail):
        super().__init__(f"{code}:{detail}")


class CallbackError(Exception):
    def __init__(self, msg):
        super().__init__(msg)
        self.callback = lambda: 0


EXCS = {
    "A UnicodeDecodeError": (UnicodeDecodeError, lambda: UnicodeDecodeError("utf-8", b"\xff", 0, 1, "bad byte")),
    "B TwoArgError": (TwoArgError, lambda: TwoArgError(7, "x")),
    "C FormattedError": (FormattedError, lambda: FormattedError(7, "x")),
    "D CallbackError": (CallbackError, lambda: CallbackError("x")),
}


class FaultEnv(ParallelEnv):
    metadata = {"name": "fault_env"}
    render_mode = None

    def __init__(self, exc_key=None):
        self.possible_agents = ["a0", "a1"]
        self.agents = self.possible_agents[:]
        self.exc_key = exc_key

    def observation_space(self, agent):
        return spaces.Box(-1.0, 1.0, (2,), np.float32)

    def action_space(self, agent):
        return spaces.Discrete(2)

    def reset(self, seed=None, options=None):
        self.agents = self.possible_agents[:]
        return ({a: np.zeros(2, np.float32) for a in self.agents}, {a: {} for a in self.agents})

    def step(self, actions):
        if self.exc_key:
            raise EXCS[self.exc_key][1]()
        z = {a: np.zeros(2, np.float32) for a in self.agents}
        f = {a: False for a in self.agents}
        return z, {a: 0.0 for a in self.agents}, f, dict(f), {a: {} for a in self.agents}

    def close(self):
        pass


class Bounded:
    def __init__(self, fn, limit):
        self.exc, self.done = None, False

        def run():
            try:
                fn()
            except BaseException as e:  # noqa: BLE001
                self.exc = e
            self.done = True

        th = threading.Thread(target=run, daemon=True)
        th.start()
        th.join(limit)
        self.hung = not self.done


failures, all_vecs = [], []
for key, (exctype, _) in EXCS.items():
    v = AsyncPettingZooVecEnv([lambda: FaultEnv(), lambda k=key: FaultEnv(k), lambda: FaultEnv()])
    all_vecs.append(v)
    v.reset()
    acts = {"a0": np.zeros(3, dtype=int), "a1": np.zeros(3, dtype=int)}
    w = Bounded(lambda: v.step(acts), PROMPT)
    got = type(w.exc).__name__ if w.exc else None
    # An exception that cannot cross the process boundary (C, D) cannot keep its exact type, but it must
    # still surface as an error (not hang) and leave close() working.
    same = (not w.hung) and (isinstance(w.exc, exctype) or (key[0] in "CD" and w.exc is not None))
    print(f"{key}: step() hung={w.hung} raised={got} ({w.exc}) state={v._state} -> {'ok' if same else 'VIOLATION'}")
    if not same:
        failures.append(f"{key}: step -> {'hang' if w.hung else got}")
    if not w.hung:
        c = Bounded(lambda: v.close(), PROMPT)
        alive = [p.is_alive() for p in v.processes]
        ok = (not c.hung) and c.exc is None and not any(alive)
        print(f"    close(): hung={c.hung} raised={type(c.exc).__name__ if c.exc else None} workers_alive={alive} -> {'ok' if ok else 'VIOLATION'}")
        if not ok:
            failures.append(f"{key}: close")

for v in all_vecs:
    for p in v.processes:
        if p.is_alive():
            p.kill()
print("FAILURES:" if failures else "all good", failures)
sys.stdout.flush()
os._exit(1 if failures else 0)
