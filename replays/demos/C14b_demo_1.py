"""C14 demo 1: PPO.get_action returns actions of shape (batch, 1, 1) for a Box action
space of shape (1,) (e.g. Pendulum-v1), i.e. not an element of the action space and not
the batch shape of the observation.  Exits 1 on the defect, 0 if the property holds."""
import sys
import numpy as np
import torch
from gymnasium import spaces

torch.set_num_threads(2)
from agilerl.algorithms.ppo import PPO

obs_space = spaces.Box(-1, 1, (3,), np.float32)
act_space = spaces.Box(-2, 2, (1,), np.float32)  # Pendulum-v1 action space
agent = PPO(obs_space, act_space, share_encoders=False)

failures = []
for training in (True, False):
    agent.set_training_mode(training)
    for label, obs, batch in [
        ("single obs", obs_space.sample(), 1),
        ("batch of 1", np.stack([obs_space.sample()]), 1),
        ("batch of 5", np.stack([obs_space.sample() for _ in range(5)]), 5),
    ]:
        action, *_ = agent.get_action(obs)
        expected = (batch, *act_space.shape)
        ok_shape = action.shape == expected
        # in evaluation mode the action must also be inside the Box
        ok_member = (not ok_shape) or training or all(act_space.contains(a) for a in action)
        if not (ok_shape and ok_member):
            failures.append(
                f"training={training} {label}: action.shape={action.shape}, expected {expected}; "
                f"act_space.contains(action[0])={act_space.contains(action[0])}"
            )

if failures:
    print("PPO returns mis-shaped actions for Box(shape=(1,)):")
    print("\n".join("  " + f for f in failures))
    sys.exit(1)
print("ok")
