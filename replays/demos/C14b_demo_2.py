"""C14 demo 2: with training=False (evaluation) MADDPG / MATD3 never clip the actor output
to the Box bounds (DDPG/TD3 do, and MADDPG/MATD3 themselves do when training=True), and PPO's
squashed evaluation branch does not clip either.
  (a) head output activation None (unsquashed head): evaluation actions lie far outside the Box;
  (b) default Tanh head + saturated policy + bounds such as [-0.2, 0.4]: low+(high-low)*1.0
      rounds to 0.40000004 > high in float32, so the action is not in the Box;
  (c) same 1-ulp overshoot for PPO(squash_output=True) in evaluation mode.
Exits 1 if any returned action is outside its action space, 0 otherwise."""
import sys
import numpy as np
import torch
from gymnasium import spaces

torch.set_num_threads(2)
from agilerl.algorithms.maddpg import MADDPG
from agilerl.algorithms.matd3 import MATD3
from agilerl.algorithms.ppo import PPO

ids = ["a_0", "b_0"]
obs_spaces = [spaces.Box(-1, 1, (4,), np.float32) for _ in ids]
act_spaces = [spaces.Box(np.float32(-0.2), np.float32(0.4), (2,), np.float32) for _ in ids]


def push_output_bias(net, n_out, value):
    """Emulates a policy whose pre-activation output is large (bang-bang policy)."""
    with torch.no_grad():
        biases = [p for n, p in net.named_parameters() if n.endswith("bias") and p.shape == (n_out,)]
        biases[-1].fill_(value)


failures = []
for cls in (MADDPG, MATD3):
    for label, net_config, bias in [
        ("(a) output_activation=None", {"head_config": {"hidden_size": [32], "output_activation": None}}, 5.0),
        ("(b) default Tanh, saturated", None, 30.0),
    ]:
        agent = cls(obs_spaces, act_spaces, ids, net_config=net_config)
        for actor in agent.actors:
            push_output_bias(actor.head_net, 2, bias)
        obs = {a: np.stack([s.sample() for _ in range(3)]) for a, s in zip(ids, obs_spaces)}
        for training in (True, False):
            action, _ = agent.get_action(obs, training=training)
            for a, sp in zip(ids, act_spaces):
                if action[a].shape != (3, 2) or not all(sp.contains(x) for x in action[a]):
                    failures.append(
                        f"{cls.__name__} {label} training={training} agent={a}: "
                        f"max action {action[a].max()!r} > high {sp.high.max()!r}"
                    )

# (c) PPO evaluation mode with squashing
osp, asp = obs_spaces[0], act_spaces[0]
ppo = PPO(osp, asp, share_encoders=False,
          net_config={"squash_output": True, "head_config": {"hidden_size": [32]}})
push_output_bias(ppo.actor.head_net, 2, 30.0)
ppo.set_training_mode(False)
act, *_ = ppo.get_action(np.stack([osp.sample() for _ in range(3)]))
if not all(asp.contains(x) for x in act):
    failures.append(f"PPO (c) squash_output eval: max action {act.max()!r} > high {asp.high.max()!r}")

if failures:
    print("Evaluation-mode actions outside the action space:")
    print("\n".join("  " + f for f in failures))
    sys.exit(1)
print("ok")
