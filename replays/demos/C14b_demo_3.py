"""C14 demo 3: CQN.get_action takes the batch size of the random (epsilon) branch from
len(obs); for Dict / Tuple observation spaces the preprocessed observation is a dict / tuple,
so len(obs) is the number of sub-spaces, not the batch size.  The number of returned actions
is then wrong (or the call crashes when a mask is supplied).
Exits 1 on the defect, 0 if the action always has the batch shape of the observation."""
import sys
import numpy as np
import torch
from gymnasium import spaces

torch.set_num_threads(2)
from agilerl.algorithms.cqn import CQN

act_space = spaces.Discrete(4)
spaces_to_try = {
    "Dict(2 keys)": spaces.Dict({"vec": spaces.Box(-1, 1, (4,), np.float32), "d": spaces.Discrete(3)}),
    "Tuple(3 items)": spaces.Tuple((spaces.Box(-1, 1, (4,), np.float32), spaces.Discrete(3), spaces.MultiDiscrete([2, 2]))),
}


def batch(space, n):
    samples = [space.sample() for _ in range(n)]
    if isinstance(space, spaces.Dict):
        return {k: np.stack([s[k] for s in samples]) for k in space.spaces}
    return tuple(np.stack([s[i] for s in samples]) for i in range(len(space.spaces)))


failures = []
for name, obs_space in spaces_to_try.items():
    agent = CQN(obs_space, act_space)
    for label, obs, n in [("single obs", obs_space.sample(), 1), ("batch of 1", batch(obs_space, 1), 1),
                          ("batch of 5", batch(obs_space, 5), 5)]:
        for epsilon in (0.0, 1.0):
            for mask in (None, np.tile(np.array([0, 1, 1, 0]), (n, 1))):
                tag = f"{name} {label} epsilon={epsilon} mask={'yes' if mask is not None else 'no'}"
                try:
                    action = np.asarray(agent.get_action(obs, epsilon=epsilon, action_mask=mask))
                except Exception as exc:  # no action at all
                    failures.append(f"{tag}: raised {type(exc).__name__}: {exc}")
                    continue
                if action.shape != (n,):
                    failures.append(f"{tag}: action.shape={action.shape}, expected {(n,)}")
                elif mask is not None and not all(mask[i, a] for i, a in enumerate(action)):
                    failures.append(f"{tag}: masked action chosen {action}")

if failures:
    print("CQN random branch does not follow the observation's batch shape:")
    print("\n".join("  " + f for f in failures))
    sys.exit(1)
print("ok")
