"""C14 demo 4: IPPO.get_action handles homogeneous agents positionally.  Observations (and
action masks) of a homogeneous group are stacked in the iteration order of the obs / infos
dicts, but the outputs are handed back in the order of agent_ids.  When the obs dict lists
the agents of a group in another order than agent_ids (dicts are keyed mappings, the keys
are all present), every agent receives the action that was sampled for a sibling under the
sibling's mask - so masked (illegal) actions are returned.
Exits 1 if a masked action is returned, 0 otherwise."""
import sys
import numpy as np
import torch
from gymnasium import spaces

torch.set_num_threads(2)
from agilerl.algorithms.ippo import IPPO

agent_ids = ["agent_0", "agent_1", "other_0"]
obs_spaces = [spaces.Box(-1, 1, (4,), np.float32) for _ in agent_ids]
act_spaces = [spaces.Discrete(3) for _ in agent_ids]
ippo = IPPO(obs_spaces, act_spaces, agent_ids)

# Each agent may only play ONE action (all but one masked): agent_0 -> 0, agent_1 -> 1, other_0 -> 2
masks = {"agent_0": [1, 0, 0], "agent_1": [0, 1, 0], "other_0": [0, 0, 1]}

failures = []
for order in (["agent_0", "agent_1", "other_0"], ["agent_1", "agent_0", "other_0"], ["other_0", "agent_1", "agent_0"]):
    for training in (True, False):
        ippo.set_training_mode(training)
        for vect in (None, 3):
            obs = {a: (obs_spaces[0].sample() if vect is None else np.stack([obs_spaces[0].sample() for _ in range(vect)])) for a in order}
            infos = {a: {"action_mask": masks[a] if vect is None else [masks[a]] * vect} for a in order}
            action, *_ = ippo.get_action(obs, infos=infos)
            for a in agent_ids:
                chosen = np.asarray(action[a]).reshape(-1)
                illegal = [int(c) for c in chosen if masks[a][int(c)] == 0]
                if illegal:
                    failures.append(f"dict order {order}, training={training}, num_envs={vect}: {a} has mask {masks[a]} but got action(s) {chosen.tolist()}")

if failures:
    print("IPPO returned masked actions:")
    print("\n".join("  " + f for f in failures))
    sys.exit(1)
print("ok")
