"""C14 demo 5: DQN._get_action decides 'use the policy' with  uniform_().gt(epsilon).
torch's uniform_() draws from [0, 1), so the value 0.0 is possible (probability 2**-24 per
element); with epsilon == 0 (exploration switched off) such a draw fails `0 > 0` and a RANDOM
action is returned instead of the greedy one.  The draw is pinned to its legal extreme 0.0.
Exits 1 if an epsilon=0 action differs from the best allowed action, 0 otherwise."""
import sys
import numpy as np
import torch
from gymnasium import spaces

torch.set_num_threads(2)
from agilerl.algorithms.dqn import DQN

torch.manual_seed(0)
obs_space, act_space = spaces.Box(-1, 1, (4,), np.float32), spaces.Discrete(6)
agent = DQN(obs_space, act_space)
obs = np.stack([obs_space.sample() for _ in range(64)])
mask = np.tile(np.array([1, 1, 0, 1, 1, 1]), (64, 1))
with torch.no_grad():
    q = agent.actor(torch.as_tensor(obs)).numpy()
best_allowed = np.where(mask.astype(bool), q, -np.inf).argmax(-1)

orig = torch.Tensor.uniform_
torch.Tensor.uniform_ = lambda self, *a, **k: self.zero_()  # 0.0 lies in uniform_()'s range [0, 1)
try:
    action = agent.get_action(obs, epsilon=0.0, action_mask=mask)
finally:
    torch.Tensor.uniform_ = orig

wrong = int((action != best_allowed).sum())
if wrong:
    print(f"epsilon=0 but {wrong}/64 actions are not the best allowed action (random branch taken when the uniform draw is exactly 0.0)")
    sys.exit(1)
print("ok")
