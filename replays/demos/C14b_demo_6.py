"""C14 demo 6 (no action returned at all): IPPO.get_action raises for every action mask that is a
numpy array (the type environments deliver): extract_action_masks evaluates `None in [ndarray, ...]`,
which compares None == ndarray element-wise and raises "truth value of an array ... is ambiguous".
DQN.get_action raises for boolean masks (`1 - bool_tensor`).  Exits 1 if a legal mask makes get_action
raise or return a masked action, 0 otherwise."""
import sys
import numpy as np
import torch
from gymnasium import spaces

torch.set_num_threads(2)
from agilerl.algorithms.ippo import IPPO
from agilerl.algorithms.dqn import DQN

failures = []
agent_ids = ["agent_0", "agent_1", "other_0"]
obs_spaces = [spaces.Box(-1, 1, (4,), np.float32) for _ in agent_ids]
act_spaces = [spaces.Discrete(3) for _ in agent_ids]
ippo = IPPO(obs_spaces, act_spaces, agent_ids)
mask = np.array([0, 1, 0], dtype=np.int8)
obs = {a: obs_spaces[0].sample() for a in agent_ids}
try:
    action, *_ = ippo.get_action(obs, infos={a: {"action_mask": mask} for a in agent_ids})
    if any(int(np.asarray(v).reshape(-1)[0]) != 1 for v in action.values()):
        failures.append(f"IPPO returned a masked action: {action}")
except Exception as exc:
    failures.append(f"IPPO with numpy int8 masks raised {type(exc).__name__}: {exc}")

dqn = DQN(obs_spaces[0], spaces.Discrete(3))
try:
    a = dqn.get_action(obs_spaces[0].sample(), epsilon=0.5, action_mask=np.array([False, True, False]))
    if int(a[0]) != 1:
        failures.append(f"DQN returned a masked action {a}")
except Exception as exc:
    failures.append(f"DQN with a boolean mask raised {type(exc).__name__}: {str(exc)[:90]}")

if failures:
    print("\n".join(failures))
    sys.exit(1)
print("ok")
