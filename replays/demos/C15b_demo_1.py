"""C15 demo 1: DQN.get_action / PPO.get_action run the networks in train mode, so the
default image encoder (Conv2d + BatchNorm2d, CnnNetConfig.layer_norm=True) normalises
with the statistics of the *current call's batch*.  The greedy action (DQN) and the value
estimate (PPO) reported for one observation therefore depend on which other observations
share the call (and every call also shifts the running statistics).
Exit 1 = property violated, exit 0 = property holds."""
import sys
import warnings

import numpy as np
import torch
from gymnasium import spaces

warnings.simplefilter("ignore")
torch.set_num_threads(2)

from agilerl.algorithms.dqn import DQN
from agilerl.algorithms.ppo import PPO

img = spaces.Box(0, 255, (3, 16, 16), dtype=np.uint8)
failures = []

# ---- DQN: greedy action of x alone vs x next to another observation -------------------
flips = []
for seed in range(5):
    torch.manual_seed(seed)
    np.random.seed(seed)
    agent = DQN(img, spaces.Discrete(4))  # default net_config
    rng = np.random.default_rng(seed)
    x = rng.integers(0, 256, (3, 16, 16)).astype(np.uint8)
    others = {
        "all-zero image": np.zeros_like(x),
        "all-255 image": np.full_like(x, 255),
        "dark copy": x // 4,
    }
    alone = int(agent.get_action(x, epsilon=0.0)[0])
    for name, o in others.items():
        together = int(agent.get_action(np.stack([x, o]), epsilon=0.0)[0])
        if together != alone:
            flips.append((seed, name, alone, together))
if flips:
    s, n, a, t = flips[0]
    failures.append(
        f"DQN: greedy action for the same image changes with its batch companions "
        f"({len(flips)} flips in 15 trials; e.g. seed {s}: alone -> {a}, next to '{n}' -> {t})"
    )

# ---- PPO: value estimate of x alone vs x next to another observation ---------------------
torch.manual_seed(0)
ppo = PPO(img, spaces.Discrete(4), share_encoders=False)
img.seed(0)
x = img.sample()
v_alone = float(np.asarray(ppo.get_action(x)[3]).reshape(-1)[0])
v_pair = float(np.asarray(ppo.get_action(np.stack([x, np.zeros_like(x)]))[3]).reshape(-1)[0])
if abs(v_alone - v_pair) > 1e-5:
    failures.append(
        f"PPO: value estimate of the same image is {v_alone:.6f} alone but {v_pair:.6f} "
        f"when an all-zero image shares the call (critic.training={ppo.critic.training})"
    )

# ---- the same call repeated gives a different answer (running statistics move) -------
torch.manual_seed(0)
dqn = DQN(img, spaces.Discrete(4))
bn = [m for _, m in dqn.actor.named_modules() if isinstance(m, torch.nn.BatchNorm2d)][0]
before = bn.running_mean.clone()
dqn.get_action(x, epsilon=0.0)
if not torch.equal(before, bn.running_mean):
    failures.append(
        "DQN.get_action(epsilon=0) mutates the BatchNorm running statistics of the actor "
        "(inference is executed in train mode)"
    )

if failures:
    print("C15 VIOLATED:")
    for f in failures:
        print(" -", f)
    sys.exit(1)
print("ok: greedy action / value of an observation do not depend on its batch companions")
sys.exit(0)
