"""C15 demo 2: the multi-agent entry points pair observations with agents BY POSITION in
the observation dict, not by agent id.  Passing the very same {agent_id: observation}
mapping with its keys in another order (or with an agent missing) silently feeds agent
A's network / output slot with agent B's observation.
Exit 1 = property violated, exit 0 = property holds."""
import sys
import warnings

import numpy as np
import torch
from gymnasium import spaces

warnings.simplefilter("ignore")
torch.set_num_threads(2)

from agilerl.algorithms.ippo import IPPO
from agilerl.algorithms.maddpg import MADDPG
from agilerl.algorithms.matd3 import MATD3

ids = ["agent_0", "agent_1", "other_0"]
obs_spaces = [spaces.Box(-1, 1, (4,)) for _ in ids]
act_spaces = [spaces.Box(-1, 1, (2,)) for _ in ids]
for k, s in enumerate(obs_spaces):
    s.seed(k + 1)
obs = {i: s.sample() for i, s in zip(ids, obs_spaces)}  # three different observations
obs_reordered = {i: obs[i] for i in reversed(ids)}  # same mapping, other key order
failures = []

for cls in (MADDPG, MATD3):
    torch.manual_seed(0)
    agent = cls(obs_spaces, act_spaces, agent_ids=ids)
    a, _ = agent.get_action(obs, training=False)
    b, _ = agent.get_action(obs_reordered, training=False)
    for i in ids:
        if not np.allclose(a[i], b[i], atol=1e-6):
            failures.append(
                f"{cls.__name__}: greedy action of {i} for the same observation is {a[i].ravel()} "
                f"with keys {list(obs)} but {b[i].ravel()} with keys {list(obs_reordered)}"
            )
    # what it really computed: actor of agent_0 applied to the observation listed first
    with torch.no_grad():
        agent.actors[0].eval()
        wrong = agent.actors[0](torch.as_tensor(obs["other_0"]).float().unsqueeze(0)).numpy()
        agent.actors[0].train()
    if np.allclose(b["agent_0"], wrong, atol=1e-6):
        failures.append(
            f"{cls.__name__}: the action returned for agent_0 is actor_0(observation of other_0)"
        )
    # an agent missing from the call (e.g. it has terminated): no error, wrong pairing
    sub = {"agent_1": obs["agent_1"], "other_0": obs["other_0"]}
    try:
        c, _ = agent.get_action(sub, training=False)
        if "agent_1" in c and not np.allclose(c["agent_1"], a["agent_1"], atol=1e-6):
            failures.append(
                f"{cls.__name__}: with agent_0 absent, agent_1's action changes from "
                f"{a['agent_1'].ravel()} to {c['agent_1'].ravel()} (returned keys {list(c)})"
            )
    except Exception as e:  # an explicit error would be acceptable
        pass

torch.manual_seed(0)
ippo = IPPO(obs_spaces, act_spaces, agent_ids=ids)
v = ippo.get_action(obs)[3]
w = ippo.get_action(obs_reordered)[3]
for i in ids:
    if not np.allclose(v[i], w[i], atol=1e-6):
        failures.append(
            f"IPPO: value estimate reported for {i} is {np.ravel(v[i])} with keys {list(obs)} "
            f"but {np.ravel(w[i])} with keys {list(obs_reordered)} (shared-policy rows are "
            f"assembled in dict order, disassembled in agent_ids order)"
        )

if failures:
    print("C15 VIOLATED:")
    for f in failures:
        print(" -", f)
    sys.exit(1)
print("ok: per-agent outputs do not depend on the key order of the observation dict")
sys.exit(0)
