"""C15 demo 3: a scalar observation space Box(shape=()) is accepted as a vector space
(is_vector_space allows rank 0; the encoder is an MLP with spaces.flatdim == 1 inputs), but
preprocess_observation returns a (B,) tensor - no feature dimension - for a batch of B
scalars.  EvolvableMLP.forward then reads the 1-D tensor as ONE unbatched vector of B
features: a single observation works, a vectorised one (B >= 2) raises.
Exit 1 = property violated, exit 0 = property holds."""
import sys
import warnings

import numpy as np
import torch
from gymnasium import spaces

warnings.simplefilter("ignore")
torch.set_num_threads(2)

from agilerl.algorithms.dqn import DQN
from agilerl.utils.algo_utils import preprocess_observation

space = spaces.Box(-1.0, 1.0, ())
failures = []

torch.manual_seed(0)
agent = DQN(space, spaces.Discrete(3))
net_in = agent.actor.encoder.model[0].in_features  # network input shape is (1,)
batch = np.array([0.25, -0.5, 0.75], dtype=np.float32)  # 3 envs, one scalar each

out = preprocess_observation(batch, space)
if tuple(out.shape) != (3, net_in):
    failures.append(
        f"preprocess_observation(batch of 3 scalars) has shape {tuple(out.shape)}, "
        f"expected (3, {net_in}) = (batch, network input shape)"
    )
te = preprocess_observation(batch.reshape(3, 1), space)  # (steps, envs) = (3, 1)
if tuple(te.shape) != (3, net_in):
    failures.append(
        f"preprocess_observation((steps=3, envs=1) scalars) has shape {tuple(te.shape)}, "
        f"expected (3, {net_in})"
    )

singles = [int(np.ravel(agent.get_action(o, epsilon=0.0))[0]) for o in batch]
try:
    together = [int(a) for a in np.ravel(agent.get_action(batch, epsilon=0.0))]
    if together != singles:
        failures.append(f"DQN greedy actions: one by one {singles}, as a batch {together}")
except Exception as e:
    failures.append(
        f"DQN.get_action works for each scalar observation {singles} but raises for the "
        f"batch of 3: {type(e).__name__}: {str(e)[:90]}"
    )

if failures:
    print("C15 VIOLATED:")
    for f in failures:
        print(" -", f)
    sys.exit(1)
print("ok: rank-0 Box observations get a (batch, 1) tensor and batch == singles")
sys.exit(0)
