"""C15 demo 4: Discrete / MultiDiscrete observation spaces with a non-zero `start` are
one-hot encoded from the raw value instead of (value - start): the largest legal value
(or any negative one) raises, the others light up the wrong component.
Exit 1 = property violated, exit 0 = property holds."""
import sys
import warnings

import numpy as np
import torch
from gymnasium import spaces

warnings.simplefilter("ignore")
from agilerl.utils.algo_utils import preprocess_observation

failures = []
for space in (spaces.Discrete(3, start=1), spaces.Discrete(3, start=-1)):
    eye = torch.eye(3)
    for k in range(3):
        value = np.int64(space.start + k)  # k-th member of the space
        assert space.contains(value)
        try:
            out = preprocess_observation(value, space)
            if out.shape != (1, 3) or not torch.equal(out[0], eye[k]):
                failures.append(
                    f"{space}: value {value} (member #{k}) -> {out.tolist()}, expected {eye[k].tolist()}"
                )
        except Exception as e:
            failures.append(f"{space}: legal value {value} raises {type(e).__name__}: {e}")

try:
    md = spaces.MultiDiscrete([2, 3], start=[1, 1])
    value = np.array([2, 3])  # last member of each component
    assert md.contains(value)
    try:
        out = preprocess_observation(value, md)
        expected = torch.tensor([[0.0, 1.0, 0.0, 0.0, 1.0]])
        if not torch.equal(out, expected):
            failures.append(f"{md}: {value} -> {out.tolist()}, expected {expected.tolist()}")
    except Exception as e:
        failures.append(f"{md}: legal value {value} raises {type(e).__name__}: {e}")
except TypeError:
    pass  # this gymnasium has no MultiDiscrete(start=...)

if failures:
    print("C15 VIOLATED:")
    for f in failures:
        print(" -", f)
    sys.exit(1)
print("ok: discrete values become the matching one-hot vectors")
sys.exit(0)
