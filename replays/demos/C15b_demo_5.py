"""C15 demo 5: (steps, envs, ...) inputs are flattened with Tensor.view, which only works
for a contiguous layout.  The same values given as a transposed (non-contiguous) numpy
array or tensor - e.g. an (envs, steps, ...) rollout swapped to (steps, envs, ...) - raise.
Exit 1 = property violated, exit 0 = property holds."""
import sys
import warnings

import numpy as np
import torch
from gymnasium import spaces

warnings.simplefilter("ignore")
from agilerl.utils.algo_utils import preprocess_observation

failures = []
cases = {
    "Box(4,)": (spaces.Box(0, 1, (4,)), np.random.default_rng(0).random((3, 2, 4), dtype=np.float32)),
    "Discrete(1)": (spaces.Discrete(1), np.zeros((3, 2), dtype=np.int64)),
    "MultiDiscrete([3,2])": (spaces.MultiDiscrete([3, 2]), np.ones((3, 2, 2), dtype=np.int64)),
    "MultiBinary(3)": (spaces.MultiBinary(3), np.ones((3, 2, 3), dtype=np.int8)),
}
for name, (space, env_major) in cases.items():
    step_major = np.swapaxes(env_major, 0, 1)  # (steps=2, envs=3, ...), a view
    want = preprocess_observation(np.ascontiguousarray(step_major), space)
    for kind, obs in (("numpy", step_major), ("tensor", torch.from_numpy(env_major).transpose(0, 1))):
        try:
            got = preprocess_observation(obs, space)
            if got.shape != want.shape or not torch.equal(got, want):
                failures.append(f"{name} {kind}: differs from the contiguous copy")
        except Exception as e:
            failures.append(
                f"{name}: (steps, envs) {kind} input with strides of a transpose raises "
                f"{type(e).__name__}: {str(e)[:60]}..."
            )

if failures:
    print("C15 VIOLATED:")
    for f in failures:
        print(" -", f)
    sys.exit(1)
print("ok: (steps, envs) inputs are flattened whatever their memory layout")
sys.exit(0)
