"""C15 demo 6: Python numbers are accepted by preprocess_observation (obs_to_tensor has a
Number branch) but get_vect_dim reads `.shape` unconditionally, so an un-vectorised
observation given as a Python int is not recognised (AttributeError) and IPPO.get_action
fails on the input MADDPG.get_action accepts.
Exit 1 = property violated, exit 0 = property holds."""
import sys
import warnings

import numpy as np
import torch
from gymnasium import spaces

warnings.simplefilter("ignore")
torch.set_num_threads(2)
from agilerl.algorithms.ippo import IPPO
from agilerl.algorithms.maddpg import MADDPG
from agilerl.utils.algo_utils import get_vect_dim, preprocess_observation

failures = []
space = spaces.Discrete(5)
assert tuple(preprocess_observation(3, space).shape) == (1, 5)  # numbers are supported
for name, obs, sp in (("int / Discrete", 3, space), ("float / Box(())", 0.5, spaces.Box(-1, 1, ()))):
    try:
        n = get_vect_dim(obs, sp)
        if n != 1:
            failures.append(f"get_vect_dim({name}) = {n}, expected 1")
    except Exception as e:
        failures.append(f"get_vect_dim({name}) raises {type(e).__name__}: {e}")

ids = ["agent_0", "agent_1"]
obs = {"agent_0": 3, "agent_1": 1}
torch.manual_seed(0)
ma = MADDPG([space, space], [spaces.Discrete(2)] * 2, agent_ids=ids)
ma.get_action(obs, training=False)  # works
ip = IPPO([space, space], [spaces.Discrete(2)] * 2, agent_ids=ids)
ref = ip.get_action({k: np.int64(v) for k, v in obs.items()})[3]
try:
    got = ip.get_action(obs)[3]
    for k in ids:
        if not np.allclose(got[k], ref[k]):
            failures.append(f"IPPO value for {k} differs between int and np.int64 input")
except Exception as e:
    failures.append(f"IPPO.get_action({obs}) raises {type(e).__name__}: {e} (np.int64 values work)")

if failures:
    print("C15 VIOLATED:")
    for f in failures:
        print(" -", f)
    sys.exit(1)
print("ok: Python-number observations are recognised as un-vectorised")
sys.exit(0)
