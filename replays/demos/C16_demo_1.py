"""C16 demo 1 - PPO.learn / IPPO.learn re-evaluate stored actions of ONE-component
action spaces (Box(1,), MultiBinary(1), MultiDiscrete([k])) with the wrong shape.

Flow (exactly the one in agilerl/training/train_on_policy.py and
train_multi_agent_on_policy.py): actions come from agent.get_action(), are stored
as returned, and are handed to agent.learn().  Inside learn() the minibatch of
actions is `.squeeze()`d to shape (N,), while the distribution has batch shape (N, 1).
torch broadcasts (N,) against (N, 1) to (N, N) and the handler sums over dim 1, so
the "log-probability of sample i" that enters the PPO ratio is
    sum_j log p_i(a_j)          (all N actions of the minibatch under sample i's dist)
instead of log p_i(a_i).  For MultiDiscrete([k]) the same squeeze makes
torch.unbind(dim=1) raise.

The learning rate is 1e-12 and a single minibatch is used, so the weights at
re-evaluation time equal the weights at collection time: the re-evaluated
log-prob must equal (a) the log-prob computed by hand with torch.distributions
from the raw network output, and (b) the log-prob stored at collection time.

Exit code 1 = property violated, 0 = holds.
"""
import sys
import warnings

import numpy as np
import torch
from gymnasium import spaces

warnings.filterwarnings("ignore")

from agilerl.algorithms.ippo import IPPO  # noqa: E402
from agilerl.algorithms.ppo import PPO  # noqa: E402

OBS = spaces.Box(-1, 1, (4,), dtype=np.float32)
T, NUM_ENVS = 6, 3


def reference(actor, obs_t, actions):
    """log p(a) by hand from the raw head output (no AgileRL distribution code)."""
    sp = actor.action_space
    with torch.no_grad():
        logits = actor.head_net.wrapped(actor.extract_features(obs_t))
        n = logits.shape[0]
        a = actions.reshape(n, -1).float()
        if isinstance(sp, spaces.Box):
            std = actor.head_net.log_std.exp().expand_as(logits)
            return torch.distributions.Normal(logits, std).log_prob(a).sum(1)
        if isinstance(sp, spaces.MultiBinary):
            return torch.distributions.Bernoulli(logits=logits).log_prob(a).sum(1)
        if isinstance(sp, spaces.MultiDiscrete):
            out = 0
            for i, lg in enumerate(torch.split(logits, list(sp.nvec), dim=1)):
                out = out + torch.distributions.Categorical(logits=lg).log_prob(a[:, i])
            return out
    raise NotImplementedError


def check(tag, got, ref, stored):
    got = got.detach().reshape(-1)
    bad = []
    if got.shape != ref.shape or not torch.allclose(got, ref, atol=1e-4):
        bad.append("differs from torch.distributions reference")
    s = torch.as_tensor(np.asarray(stored, dtype=np.float32)).reshape(-1)
    if got.numel() != s.numel() or not torch.allclose(
        got.sort().values, s.sort().values, atol=1e-4
    ):
        bad.append("differs from log-probs stored at collection (weights unchanged)")
    if bad:
        print(f"FAIL {tag}: " + "; ".join(bad))
        print("   re-evaluated :", np.round(got.numpy()[:6], 4))
        print("   reference    :", np.round(ref.numpy()[:6], 4))
        return False
    print(f"ok   {tag}")
    return True


def run_ppo(name, act_space):
    torch.manual_seed(0)
    np.random.seed(0)
    agent = PPO(
        OBS,
        act_space,
        share_encoders=False,
        batch_size=T * NUM_ENVS,
        update_epochs=1,
        lr=1e-12,
    )
    S, A, LP, R, D, V = [], [], [], [], [], []
    for _ in range(T):
        obs = np.random.randn(NUM_ENVS, 4).astype(np.float32)
        a, lp, _, v = agent.get_action(obs)
        S.append(obs), A.append(a), LP.append(lp), V.append(v)
        R.append(np.random.randn(NUM_ENVS)), D.append(np.zeros(NUM_ENVS))
    seen = {}
    orig = agent.evaluate_actions

    def spy(obs, actions):
        lp, ent, val = orig(obs=obs, actions=actions)
        seen["lp"] = lp
        seen["ref"] = reference(agent.actor, agent.preprocess_observation(obs), actions)
        return lp, ent, val

    agent.evaluate_actions = spy
    try:
        agent.learn(
            (S, A, LP, R, D, V, np.random.randn(NUM_ENVS, 4).astype(np.float32), np.zeros(NUM_ENVS))
        )
    except Exception as e:  # noqa: BLE001
        print(f"FAIL PPO  {name}: learn() raised {type(e).__name__}: {e}")
        return False
    return check(f"PPO  {name}", seen["lp"], seen["ref"], LP)


def run_ippo(name, act_space):
    torch.manual_seed(0)
    np.random.seed(0)
    ids = ["agent_0", "agent_1"]
    agent = IPPO(
        [OBS, OBS], [act_space, act_space], agent_ids=ids,
        batch_size=10_000, update_epochs=1, lr=1e-12,
    )
    agent.set_training_mode(True)
    buf = {k: {i: [] for i in ids} for k in "sapvrd"}
    for _ in range(T):
        obs = {i: np.random.randn(NUM_ENVS, 4).astype(np.float32) for i in ids}
        a, lp, _, v = agent.get_action(obs)
        for i in ids:
            buf["s"][i].append(obs[i]), buf["a"][i].append(a[i])
            buf["p"][i].append(lp[i]), buf["v"][i].append(v[i])
            buf["r"][i].append(np.random.randn(NUM_ENVS))
            buf["d"][i].append(np.zeros(NUM_ENVS))
    actor = agent.actors[0]
    seen = {}
    orig_lp, orig_fwd = actor.action_log_prob, actor.forward

    def fwd(obs, action_mask=None):
        seen["obs"] = obs
        return orig_fwd(obs, action_mask=action_mask)

    def spy(actions):
        lp = orig_lp(actions)
        seen["lp"], seen["ref"] = lp, reference(actor, seen["obs"], actions)
        return lp

    actor.forward, actor.action_log_prob = fwd, spy
    nobs = {i: np.random.randn(NUM_ENVS, 4).astype(np.float32) for i in ids}
    nd = {i: np.zeros(NUM_ENVS) for i in ids}
    try:
        agent.learn((buf["s"], buf["a"], buf["p"], buf["r"], buf["d"], buf["v"], nobs, nd))
    except Exception as e:  # noqa: BLE001
        print(f"FAIL IPPO {name}: learn() raised {type(e).__name__}: {e}")
        return False
    stored = np.concatenate([np.asarray(buf["p"][i]).reshape(-1) for i in ids])
    return check(f"IPPO {name}", seen["lp"], seen["ref"], stored)


if __name__ == "__main__":
    cases = {
        "Box(1,)  [e.g. Pendulum-v1]": spaces.Box(-2, 2, (1,), dtype=np.float32),
        "MultiBinary(1)": spaces.MultiBinary(1),
        "MultiDiscrete([3])": spaces.MultiDiscrete([3]),
        # controls (multi-component spaces are fine)
        "Box(3,) control": spaces.Box(-2, 2, (3,), dtype=np.float32),
        "MultiDiscrete([3,2,4]) control": spaces.MultiDiscrete([3, 2, 4]),
    }
    ok = True
    for name, sp in cases.items():
        ok &= run_ppo(name, sp)
        ok &= run_ippo(name, sp)
    if not ok:
        print("\nC16 VIOLATED: stored actions of one-component action spaces are "
              "re-evaluated with a broadcast (N,N) log-prob (or crash).")
        sys.exit(1)
    print("C16 holds for the re-evaluation of stored actions")
    sys.exit(0)
