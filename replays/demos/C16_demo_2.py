"""C16 demo 2 - with squash_output=True the action RETURNED by StochasticActor.forward
(rescaled to [low, high] by scale_action) cannot be re-evaluated:
StochasticActor.action_log_prob(action) feeds the env-unit action straight into the
tanh Jacobian term  log(1 - action**2 + 1e-6)  without undoing scale_action.

This is NOT the already-known "log_prob uses the latest sample instead of
atanh(action)" issue: there is no second forward pass here, so the latest sample IS
the pre-image of the action and the Gaussian term is right.  Only the Jacobian term is
evaluated at the wrong point (a in [low, high] instead of t = tanh(x) in [-1, 1]).
The control case Box(-1, 1) (scale_action is the identity) passes.

Expected (property): action_log_prob(a) == log N(atanh(t); mu, sigma) - sum log(1 - t^2)
with t = 2 (a - low) / (high - low) - 1, which is also what forward() reported for a.
Observed: NaN when |a| > 1 in some dimension, otherwise a wrong finite number.

Exit code 1 = property violated, 0 = holds.
"""
import sys
import warnings

import numpy as np
import torch
from gymnasium import spaces

warnings.filterwarnings("ignore")
from agilerl.networks.actors import StochasticActor  # noqa: E402

OBS = spaces.Box(-1, 1, (4,), dtype=np.float32)


def reference(actor, obs, a):
    with torch.no_grad():
        mu = actor.head_net.wrapped(actor.extract_features(obs))
        std = actor.head_net.log_std.exp().expand_as(mu)
        low, high = actor.action_low, actor.action_high
        t = 2 * (a - low) / (high - low) - 1  # undo scale_action
        x = torch.atanh(t.clamp(-1 + 1e-6, 1 - 1e-6))
        return torch.distributions.Normal(mu, std).log_prob(x).sum(1) - torch.log(
            1 - t.pow(2) + 1e-6
        ).sum(1)


def run(name, act_space):
    torch.manual_seed(1)
    # small std keeps tanh away from saturation so the 1e-6 epsilon is irrelevant
    actor = StochasticActor(OBS, act_space, squash_output=True, action_std_init=-1.0)
    obs = torch.randn(6, 4)
    with torch.no_grad():
        a, lp_fwd, _ = actor(obs)  # a is in env units [low, high]
        in_bounds = bool(((a >= actor.action_low) & (a <= actor.action_high)).all())
        lp_re = actor.action_log_prob(a)  # same distribution, same action, no new sample
    ref = reference(actor, obs, a)
    ok_fwd = torch.allclose(lp_fwd, ref, atol=1e-3)
    ok_re = (not torch.isnan(lp_re).any()) and torch.allclose(lp_re, ref, atol=1e-3)
    status = "ok  " if (ok_fwd and ok_re and in_bounds) else "FAIL"
    print(f"{status} {name}: action in bounds={in_bounds}, forward log_prob correct={ok_fwd}, "
          f"action_log_prob(returned action) correct={ok_re}")
    if not ok_re:
        print("    returned action[0] :", a[0].numpy())
        print("    forward log_prob   :", np.round(lp_fwd.numpy(), 4))
        print("    reference          :", np.round(ref.numpy(), 4))
        print("    action_log_prob(a) :", np.round(lp_re.numpy(), 4))
    return ok_fwd and ok_re and in_bounds


if __name__ == "__main__":
    ok = True
    ok &= run("Box(-1,1,(3,)) control (scale is identity)", spaces.Box(-1, 1, (3,), dtype=np.float32))
    ok &= run("Box(-2,2,(1,))", spaces.Box(-2, 2, (1,), dtype=np.float32))
    ok &= run("Box(-0.5,0.5,(2,))", spaces.Box(-0.5, 0.5, (2,), dtype=np.float32))
    ok &= run(
        "Box([0,-5,10],[10,5,20])",
        spaces.Box(np.array([0, -5, 10], dtype=np.float32), np.array([10, 5, 20], dtype=np.float32)),
    )
    if not ok:
        print("\nC16 VIOLATED: action_log_prob of the action returned by the squashed actor "
              "is NaN / wrong because scale_action is never inverted.")
        sys.exit(1)
    print("C16 holds")
    sys.exit(0)
