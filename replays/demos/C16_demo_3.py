"""C16 demo 3 - actions collected under an action mask are re-evaluated WITHOUT the mask.

PPO.get_action(obs, action_mask=m) samples from, and reports the log-prob under, the
masked distribution (illegal logits -> -1e8).  PPO.learn() -> PPO.evaluate_actions()
(and IPPO._learn_individual -> actor(batch_states)) run the forward pass with no mask,
and the experience tuple has no slot for masks.  Hence, with UNCHANGED weights:

  * the re-evaluated log-prob of a stored action is log softmax(all logits)[a], not the
    log-prob of that action under the current (masked) policy;
  * under the distribution used for re-evaluation the masked actions have non-zero
    probability (the missing mass is exactly the illegal mass);
  * the PPO ratio exp(new - old) equals P(legal set) < 1 for every sample before any
    gradient step, instead of 1.

The demo uses the real collection/learn flow (lr=1e-12, one minibatch) and spies on
evaluate_actions / action_log_prob.  If a repair adds an `action_mask` (or
`action_masks`) argument to evaluate_actions and a 9th element to the experiences, the
demo uses them.

Exit code 1 = property violated, 0 = holds.
"""
import inspect
import sys
import warnings

import numpy as np
import torch
from gymnasium import spaces

warnings.filterwarnings("ignore")
from agilerl.algorithms.ippo import IPPO  # noqa: E402
from agilerl.algorithms.ppo import PPO  # noqa: E402

OBS = spaces.Box(-1, 1, (4,), dtype=np.float32)
ACT = spaces.Discrete(4)
T, NUM_ENVS = 8, 2


def masked_reference(actor, obs_t, actions, masks):
    with torch.no_grad():
        logits = actor.head_net.wrapped(actor.extract_features(obs_t))
        m = torch.as_tensor(np.asarray(masks), dtype=torch.bool).reshape(logits.shape)
        d_masked = torch.distributions.Categorical(logits=logits.masked_fill(~m, -float("inf")))
        d_plain = torch.distributions.Categorical(logits=logits)
        illegal_mass = (d_plain.probs * (~m)).sum(1)
        return d_masked.log_prob(actions.reshape(-1).long()), d_plain.log_prob(actions.reshape(-1).long()), illegal_mass


def report(tag, got, ref_masked, ref_plain, illegal_mass, stored):
    got = got.detach().reshape(-1)
    ok = torch.allclose(got, ref_masked, atol=1e-4)
    print(f"{'ok  ' if ok else 'FAIL'} {tag}")
    if not ok:
        print("    stored at collection (masked policy)   :", np.round(np.asarray(stored, dtype=np.float32).reshape(-1)[:5], 4))
        print("    re-evaluated in learn(), same weights  :", np.round(got.numpy()[:5], 4))
        print("    reference, masked current policy       :", np.round(ref_masked.numpy()[:5], 4))
        print("    reference, UNMASKED current policy     :", np.round(ref_plain.numpy()[:5], 4),
              "<- what was reported" if torch.allclose(got, ref_plain, atol=1e-4) else "")
        print("    prob. mass on masked actions at re-eval:", np.round(illegal_mass.numpy()[:5], 4), "(must be 0)")
        print("    PPO ratio before any update            :", np.round((got - ref_masked).exp().numpy()[:5], 4), "(must be 1)")
    return ok


def demo_ppo():
    torch.manual_seed(0)
    np.random.seed(0)
    agent = PPO(OBS, ACT, share_encoders=False, batch_size=T * NUM_ENVS, update_epochs=1, lr=1e-12)
    S, A, LP, R, D, V, M = [], [], [], [], [], [], []
    for _ in range(T):
        obs = np.random.randn(NUM_ENVS, 4).astype(np.float32)
        mask = np.random.rand(NUM_ENVS, ACT.n) > 0.5
        mask[:, np.random.randint(ACT.n)] = True  # at least one legal action
        a, lp, _, v = agent.get_action(obs, action_mask=mask)
        assert mask[np.arange(NUM_ENVS), a].all(), "sampled a masked action"
        S.append(obs), A.append(a), LP.append(lp), V.append(v), M.append(mask)
        R.append(np.random.randn(NUM_ENVS)), D.append(np.zeros(NUM_ENVS))
    flat_masks = np.asarray(M).reshape(-1, ACT.n)
    flat_obs = np.asarray(S).reshape(-1, 4)

    seen = {}
    orig = agent.evaluate_actions

    def spy(obs, actions, **kw):
        lp, e, v = orig(obs=obs, actions=actions, **kw)
        seen["lp"], seen["obs"], seen["actions"] = lp, obs, actions
        return lp, e, v

    agent.evaluate_actions = spy
    nxt = (np.random.randn(NUM_ENVS, 4).astype(np.float32), np.zeros(NUM_ENVS))
    try:  # a repaired learn() might accept the masks as an extra element
        agent.learn((S, A, LP, R, D, V, *nxt, M))
    except Exception:  # noqa: BLE001
        agent.learn((S, A, LP, R, D, V, *nxt))

    # match every minibatch row to its mask through the observation
    obs_b = torch.as_tensor(np.asarray(seen["obs"]))
    idx = [int(np.where((flat_obs == o.numpy()).all(1))[0][0]) for o in obs_b]
    ref_m, ref_p, ill = masked_reference(agent.actor, agent.preprocess_observation(seen["obs"]), seen["actions"], flat_masks[idx])
    stored = np.asarray(LP).reshape(-1)[idx]
    ok = report("PPO.learn -> evaluate_actions on masked Discrete(4) actions", seen["lp"], ref_m, ref_p, ill, stored)

    # direct API: is there any way to re-evaluate under the mask?
    params = inspect.signature(orig).parameters
    kw = {k: flat_masks for k in ("action_mask", "action_masks") if k in params}
    lp2, _, _ = orig(obs=flat_obs, actions=torch.as_tensor(np.asarray(A).reshape(-1)), **kw)
    ref_m2, ref_p2, ill2 = masked_reference(agent.actor, agent.preprocess_observation(flat_obs), torch.as_tensor(np.asarray(A).reshape(-1)), flat_masks)
    ok2 = torch.allclose(lp2.detach(), ref_m2, atol=1e-4)
    print(f"{'ok  ' if ok2 else 'FAIL'} PPO.evaluate_actions(obs, actions{', mask' if kw else ''}) "
          f"{'' if kw else '- has no mask argument; '}max |reported - masked reference| = {(lp2.detach() - ref_m2).abs().max():.4f}")
    return ok and ok2


def demo_ippo():
    torch.manual_seed(0)
    np.random.seed(0)
    ids = ["agent_0", "agent_1"]
    agent = IPPO([OBS, OBS], [ACT, ACT], agent_ids=ids, batch_size=10_000, update_epochs=1, lr=1e-12)
    agent.set_training_mode(True)
    buf = {k: {i: [] for i in ids} for k in "sapvrdm"}
    for _ in range(T):
        obs = {i: np.random.randn(NUM_ENVS, 4).astype(np.float32) for i in ids}
        masks = {}
        for i in ids:
            m = np.random.rand(NUM_ENVS, ACT.n) > 0.5
            m[:, np.random.randint(ACT.n)] = True
            masks[i] = m
        # (plain lists: IPPO.extract_action_masks raises ValueError on ndarray masks
        #  because of `None in [ndarray, ...]` - a separate crash, not the point here)
        infos = {i: {"action_mask": masks[i].tolist()} for i in ids}
        a, lp, _, v = agent.get_action(obs, infos=infos)
        for i in ids:
            assert masks[i][np.arange(NUM_ENVS), a[i].reshape(-1)].all(), "sampled a masked action"
            buf["s"][i].append(obs[i]), buf["a"][i].append(a[i]), buf["m"][i].append(masks[i])
            buf["p"][i].append(lp[i]), buf["v"][i].append(v[i])
            buf["r"][i].append(np.random.randn(NUM_ENVS)), buf["d"][i].append(np.zeros(NUM_ENVS))
    flat_obs = np.concatenate([np.asarray(buf["s"][i]).reshape(-1, 4) for i in ids])
    flat_masks = np.concatenate([np.asarray(buf["m"][i]).reshape(-1, ACT.n) for i in ids])
    flat_lp = np.concatenate([np.asarray(buf["p"][i]).reshape(-1) for i in ids])

    actor = agent.actors[0]
    seen = {}
    orig_lp, orig_fwd = actor.action_log_prob, actor.forward

    def fwd(obs, action_mask=None):
        seen["obs"] = obs
        return orig_fwd(obs, action_mask=action_mask)

    def spy(actions):
        lp = orig_lp(actions)
        seen["lp"], seen["actions"] = lp, actions
        return lp

    actor.forward, actor.action_log_prob = fwd, spy
    nobs = {i: np.random.randn(NUM_ENVS, 4).astype(np.float32) for i in ids}
    nd = {i: np.zeros(NUM_ENVS) for i in ids}
    base = (buf["s"], buf["a"], buf["p"], buf["r"], buf["d"], buf["v"], nobs, nd)
    try:
        agent.learn((*base, buf["m"]))
    except Exception:  # noqa: BLE001
        agent.learn(base)
    idx = [int(np.where(np.isclose(flat_obs, o.numpy()).all(1))[0][0]) for o in seen["obs"]]
    ref_m, ref_p, ill = masked_reference(actor, seen["obs"], seen["actions"], flat_masks[idx])
    return report("IPPO.learn -> action_log_prob on masked Discrete(4) actions", seen["lp"], ref_m, ref_p, ill, flat_lp[idx])


if __name__ == "__main__":
    ok = demo_ppo()
    ok &= demo_ippo()
    if not ok:
        print("\nC16 VIOLATED: stored actions are re-evaluated under the unmasked policy; "
              "masked actions carry probability mass at re-evaluation.")
        sys.exit(1)
    print("C16 holds")
    sys.exit(0)
