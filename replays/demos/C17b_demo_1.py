"""C17 demo 1: with the vector environments the library itself builds
(make_vect_envs -> gymnasium>=1.0 Sync/AsyncVectorEnv, default autoreset mode NEXT_STEP)
train_on_policy records, after every episode end, one extra row whose observation is
the TERMINAL observation of the finished episode, whose action is ignored by the
environment (the step only resets it) and whose "next observation" is the first
observation of the NEXT episode.  PPO.learn gives that row the estimate
    A = 0 + gamma * V(first obs of new episode) - V(terminal obs) + gamma*lambda*A_{new episode}
so rewards and values of the new episode flow into a row that carries an observation
of the previous episode, and the row is used for the policy and value update.

The demo runs the real train_on_policy twice on a counting environment; the two runs
differ ONLY in the rewards paid in episodes >= 1.  Every row whose observation belongs
to episode 0 must therefore get the same advantage and return in both runs.

exit 0: no estimate attached to an episode-0 observation depends on later episodes
exit 1: it does (prints the rows)
"""
import sys

import gymnasium as gym
import numpy as np
import torch
from gymnasium import spaces

torch.set_num_threads(2)

from agilerl.algorithms.ppo import PPO
from agilerl.training.train_on_policy import train_on_policy
from agilerl.utils.utils import make_vect_envs

L = 3  # episode length
GAMMA, LAMBDA = 0.9, 0.8


class CountEnv(gym.Env):
    """obs = [episode index, step inside the episode]; the episode terminates after L steps.
    Reward is 1 in episode 0 and `later_reward` in every later episode."""

    def __init__(self, later_reward):
        self.observation_space = spaces.Box(-1e6, 1e6, (2,), np.float32)
        self.action_space = spaces.Discrete(2)
        self.later_reward = later_reward
        self.ep, self.t = -1, 0

    def _obs(self):
        return np.array([self.ep, self.t], dtype=np.float32)

    def reset(self, *, seed=None, options=None):
        self.ep += 1
        self.t = 0
        return self._obs(), {}

    def step(self, action):
        self.t += 1
        r = 1.0 if self.ep == 0 else self.later_reward
        return self._obs(), r, self.t >= L, False, {}


def rollout(later_reward, num_envs=2, learn_step=16):
    torch.manual_seed(0)
    np.random.seed(0)
    env = make_vect_envs(
        make_env=lambda: CountEnv(later_reward),
        num_envs=num_envs,
        should_async_vector=False,  # same behaviour with the async default, just faster here
    )
    agent = PPO(
        env.single_observation_space,
        env.single_action_space,
        share_encoders=False,
        learn_step=learn_step,
        batch_size=8,
        update_epochs=1,
        gamma=GAMMA,
        gae_lambda=LAMBDA,
    )
    rows = []
    to_device = agent.to_device

    def spy(*exps):  # (states, actions, log_probs, advantages, returns, values), flattened
        rows.append([e.clone() for e in exps])
        return to_device(*exps)

    agent.to_device = spy
    agent.test = lambda *a, **k: 0.0
    train_on_policy(
        env, "count", "PPO", [agent],
        max_steps=learn_step, evo_steps=learn_step, verbose=False,
    )
    env.close()
    states, _, _, adv, ret, val = rows[0]
    return states.numpy(), adv.reshape(-1).numpy(), ret.reshape(-1).numpy(), val.reshape(-1).numpy()


def main():
    s1, adv1, ret1, val1 = rollout(later_reward=1.0)
    s2, adv2, ret2, val2 = rollout(later_reward=100.0)
    assert np.array_equal(s1, s2) and np.allclose(val1, val2), "runs are not comparable"

    bad = []
    terminal_rows = 0
    for i, (ep, t) in enumerate(s1):
        if t == L:
            terminal_rows += 1
        if ep == 0 and (abs(adv1[i] - adv2[i]) > 1e-5 or abs(ret1[i] - ret2[i]) > 1e-5):
            bad.append((i, ep, t, adv1[i], adv2[i]))

    print(f"training rows: {len(s1)}; rows whose observation is a terminal observation "
          f"(no real transition starts there): {terminal_rows}")
    if bad:
        print("FAIL: estimates attached to observations of episode 0 change when only the "
              "rewards of LATER episodes change:")
        for i, ep, t, a, b in bad:
            print(f"  row {i}: obs=(episode {int(ep)}, step {int(t)})  "
                  f"advantage {a:+.4f} (later reward 1)  vs  {b:+.4f} (later reward 100)")
        sys.exit(1)
    print("OK: no estimate of an episode-0 observation depends on later episodes")
    sys.exit(0)


if __name__ == "__main__":
    main()
