"""C17 demo 2: IPPO pairs observations with values / log-probs / next values BY POSITION
inside a group of agents that share a policy, but the position comes from two different
orders: the order of the dict handed over by the environment (IPPO.preprocess_observation,
IPPO.assemble_shared_inputs iterate `.items()`) and the order of `agent_ids`
(disassemble_homogeneous_outputs, and the rollout dicts built by
train_multi_agent_on_policy).  When `agent_ids` lists the members of a group in another
order than the environment's dicts (here ["a_1", "a_0"] vs. {"a_0":..., "a_1":...}),
  * the value / log-prob / action recorded for a_0 were computed from a_1's observation,
  * the bootstrap value of a_0's last step is the critic's value of a_1's next observation,
so the estimates are applied to observations of an agent they were not computed for.

The demo runs the real train_multi_agent_on_policy on a small counting PettingZoo
environment and compares every training row of the shared policy with a hand-written GAE
computed per agent from the critic's values of that agent's own observations.

exit 0: every row carries the value and the advantage of its own agent/time step
exit 1: otherwise
"""
import functools
import sys

import numpy as np
import torch
from gymnasium import spaces
from pettingzoo import ParallelEnv

torch.set_num_threads(2)

from agilerl.algorithms.ippo import IPPO
from agilerl.training.train_multi_agent_on_policy import train_multi_agent_on_policy

GAMMA, LAMBDA, L, T = 0.9, 0.8, 4, 10


class CountPZ(ParallelEnv):
    """obs = [agent index, episode, step]; the two agents see very different observations
    and get different rewards; episodes terminate after L steps."""

    metadata = {"name": "count_pz"}

    def __init__(self):
        self.possible_agents = ["a_0", "a_1"]
        self.render_mode = None
        self.ep = -1

    @functools.lru_cache(maxsize=None)
    def observation_space(self, agent):
        return spaces.Box(-100, 100, (3,), np.float32)

    @functools.lru_cache(maxsize=None)
    def action_space(self, agent):
        return spaces.Discrete(2)

    def _obs(self, a):
        i = self.possible_agents.index(a)
        return np.array([5.0 * i - 2.0, self.ep, self.t], dtype=np.float32)

    def reset(self, seed=None, options=None):
        self.agents = list(self.possible_agents)
        self.ep += 1
        self.t = 0
        return {a: self._obs(a) for a in self.agents}, {a: {} for a in self.agents}

    def step(self, actions):
        self.t += 1
        end = self.t >= L
        obs = {a: self._obs(a) for a in self.agents}
        rew = {a: 1.0 + 3.0 * self.possible_agents.index(a) for a in self.agents}
        term = {a: end for a in self.agents}
        trunc = {a: False for a in self.agents}
        info = {a: {} for a in self.agents}
        if end:
            self.agents = []
        return obs, rew, term, trunc, info


def ref_gae(r, v, d, next_v, next_d):
    adv = np.zeros(len(r))
    last = 0.0
    for t in reversed(range(len(r))):
        nnt = 1.0 - (next_d if t == len(r) - 1 else d[t + 1])
        nv = next_v if t == len(r) - 1 else v[t + 1]
        delta = r[t] + GAMMA * nv * nnt - v[t]
        adv[t] = last = delta + GAMMA * LAMBDA * nnt * last
    return adv


def main():
    torch.manual_seed(1)
    np.random.seed(1)
    env = CountPZ()
    agent_ids = ["a_1", "a_0"]  # same agents, other order than the environment's dicts
    agent = IPPO(
        [env.observation_space(a) for a in agent_ids],
        [env.action_space(a) for a in agent_ids],
        agent_ids,
        batch_size=4, update_epochs=1, learn_step=T, gamma=GAMMA, gae_lambda=LAMBDA, lr=1e-9,
    )
    critic = agent.critics[0]
    reference, rows = {}, []

    real_learn = agent.learn

    def learn_spy(experiences):
        states, _, _, rewards, dones, _, next_obs, next_done = experiences
        for aid in agent_ids:
            s = torch.tensor(np.stack(states[aid]))
            with torch.no_grad():
                v = critic(s).reshape(-1).double().numpy()
                nv = critic(torch.tensor(next_obs[aid]).reshape(1, -1)).item()
            adv = ref_gae(
                np.asarray(rewards[aid], dtype=np.float64), v,
                np.asarray(dones[aid], dtype=np.float64).reshape(-1),
                nv, float(np.asarray(next_done[aid]).reshape(-1)[0]),
            )
            for t in range(len(v)):
                reference[tuple(np.round(s[t].numpy(), 3))] = (aid, t, v[t], adv[t])
        return real_learn(experiences)

    real_to_device = agent.to_device

    def to_device_spy(*exps):
        rows.append([e.clone() for e in exps])
        return real_to_device(*exps)

    agent.learn = learn_spy
    agent.to_device = to_device_spy
    agent.test = lambda *a, **k: 0.0
    train_multi_agent_on_policy(
        env, "count", "IPPO", [agent], max_steps=T, evo_steps=T, verbose=False
    )

    states, _, _, adv, _, val = rows[0]
    bad = []
    for i in range(states.shape[0]):
        aid, t, v_ref, a_ref = reference[tuple(np.round(states[i].numpy(), 3))]
        if abs(val[i].item() - v_ref) > 1e-4 or abs(adv[i].item() - a_ref) > 1e-4:
            bad.append((i, aid, t, val[i].item(), v_ref, adv[i].item(), a_ref))
    if bad:
        print(f"FAIL: {len(bad)} of {states.shape[0]} training rows carry a value/advantage "
              "that was not computed for their own observation:")
        for i, aid, t, v, v_ref, a, a_ref in bad[:6]:
            print(f"  row {i} ({aid}, t={t}): old value {v:+.4f} but V(own obs) {v_ref:+.4f}; "
                  f"advantage {a:+.4f} but GAE of own stream {a_ref:+.4f}")
        sys.exit(1)
    print("OK: every row carries the value and the advantage of its own agent and time step")
    sys.exit(0)


if __name__ == "__main__":
    main()
