"""C17 demo 3: IPPO.get_action overwrites the sampled action with the environment-defined
action (info["env_defined_actions"]) AFTER the log-probability has been computed, and
returns the overwritten action together with the log-probability of the action that was
sampled.  train_multi_agent_on_policy stores both, and IPPO._learn_individual then forms
    ratio = pi_new(stored action) / exp(stored log-prob) ,
i.e. the old log-probability is applied to an action it was not computed for.

The demo calls the real get_action with a vectorised info dict in which two of four
environments define agent a_0's action, and checks that every returned log-probability is
the log-probability (under the same, unchanged policy) of the returned action.

exit 0: returned log-prob == log pi(returned action | obs) for every agent and environment
exit 1: otherwise
"""
import sys

import numpy as np
import torch
from gymnasium import spaces

torch.set_num_threads(2)

from agilerl.algorithms.ippo import IPPO


def main():
    torch.manual_seed(0)
    np.random.seed(0)
    ids = ["a_0", "a_1"]
    N = 4
    agent = IPPO(
        [spaces.Box(-1, 1, (4,), np.float32)] * 2, [spaces.Discrete(3)] * 2, ids
    )
    agent.set_training_mode(True)
    actor = agent.actors[0]
    obs = {a: np.random.rand(N, 4).astype(np.float32) for a in ids}
    infos = {
        "a_0": {"env_defined_actions": np.array([2, np.nan, 2, np.nan])},
        "a_1": {"env_defined_actions": np.full(N, np.nan)},
    }
    bad = []
    for call in range(20):
        action, log_prob, _, _ = agent.get_action(obs, infos)
        assert action["a_0"].reshape(-1)[0] == 2 and action["a_0"].reshape(-1)[2] == 2
        with torch.no_grad():
            actor(torch.tensor(np.concatenate([obs[a] for a in ids])))  # same policy, same obs
            want = actor.action_log_prob(
                torch.tensor(np.concatenate([action[a].reshape(-1) for a in ids]))
            ).numpy()
        got = np.concatenate([log_prob[a].reshape(-1) for a in ids])
        for j in np.where(np.abs(got - want) > 1e-5)[0]:
            bad.append((call, ids[j // N], j % N, int(np.concatenate([action[a].reshape(-1) for a in ids])[j]), got[j], want[j]))
    if bad:
        print(f"FAIL: {len(bad)} returned log-probabilities do not belong to the returned action:")
        for call, aid, n, act, g, w in bad[:6]:
            print(f"  call {call}, {aid}, env {n}: action {act} returned with log-prob {g:+.4f}, "
                  f"but log pi({act}|obs) = {w:+.4f}")
        sys.exit(1)
    print("OK: every returned log-probability is that of the returned action")
    sys.exit(0)


if __name__ == "__main__":
    main()
