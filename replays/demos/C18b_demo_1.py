"""C18 demo 1: the atom index of a clamped target value overflows the support.

RainbowDQN(num_atoms=51, v_min=-10, v_max=200): delta_z = 4.2 is not representable in
float32, so for t_z == v_max the code computes b = (t_z - v_min) / delta_z = 50.000004 > 50.
ceil(b) = 51 is one past the last atom:
  * if the transition is the LAST row of the batch, index_add_ raises IndexError and learn()
    cannot produce a loss / priorities at all;
  * otherwise the mass (b - floor(b)) * p is added to atom 0 of the NEXT transition's projection,
    so neither row conserves the mass of its source distribution.
Exits 1 when the property is violated, 0 otherwise.
"""
import sys
import warnings

import numpy as np
import torch
from gymnasium import spaces
from tensordict import TensorDict

warnings.filterwarnings("ignore")
torch.set_num_threads(2)
torch.manual_seed(0)

from agilerl.algorithms.dqn_rainbow import RainbowDQN

N, VMIN, VMAX, B, NA = 51, -10, 200, 4, 3
failures = []


def new_agent():
    return RainbowDQN(
        spaces.Box(-1, 1, (4,)),
        spaces.Discrete(NA),
        num_atoms=N,
        v_min=VMIN,
        v_max=VMAX,
        batch_size=B,
    )


# ---------------------------------------------------------------- part A: public API
agent = new_agent()
reward = torch.tensor([[1.0], [0.5], [2.0], [300.0]])  # last transition: reward above v_max
done = torch.tensor([[0.0], [0.0], [0.0], [1.0]])  # ... and terminal -> t_z == v_max
batch = TensorDict(
    {
        "obs": torch.randn(B, 4),
        "action": torch.zeros(B, 1, dtype=torch.long),
        "reward": reward,
        "next_obs": torch.randn(B, 4),
        "done": done,
        "weights": torch.ones(B, 1),
        "idxs": torch.arange(B).unsqueeze(1),
    },
    batch_size=[B],
)
try:
    loss, idxs, prios = agent.learn(batch, per=True)
    print(f"[A] learn() returned loss={loss:.4f}, priorities={np.round(prios, 4)}")
    if not np.isfinite(prios).all():
        failures.append("A: non-finite priorities")
except Exception as exc:  # noqa: BLE001
    print(f"[A] learn() raised {type(exc).__name__}: {exc}")
    failures.append(
        "A: learn() cannot compute the projected target for a transition whose target "
        "value is clamped to v_max when it is the last row of the batch"
    )

# ---------------------------------------------------------------- part B: mass per row
# Read the projection out of the real _dqn_loss with stub networks: the online net returns
# log_p = -e_k, so the returned element-wise loss is column k of the projection.
agent = new_agent()
tgt = torch.softmax(torch.randn(B, N), -1)  # target distribution of the greedy action
next_a = torch.tensor([0, 1, 2, 0])
reward = torch.tensor([[300.0], [VMIN - 5.0], [3.0], [1.0]])  # row 0 is clamped to v_max
done = torch.tensor([[1.0], [1.0], [0.0], [0.0]])
cols = []
for k in range(N):

    def actor_fwd(obs, q=True, log=False, k=k):
        if log:
            out = torch.zeros(B, NA, N)
            out[:, :, k] = -1.0
            return out
        qv = torch.zeros(B, NA)
        qv[range(B), next_a] = 1.0
        return qv

    def target_fwd(obs, q=True, log=False):
        d = torch.full((B, NA, N), 1.0 / N)
        d[range(B), next_a] = tgt
        return d

    agent.actor.forward = actor_fwd
    agent.actor_target.forward = target_fwd
    z = torch.zeros(B, 4)
    cols.append(
        agent._dqn_loss(z, torch.zeros(B, 1, dtype=torch.long), reward, z, done, 0.99)
    )
proj = torch.stack(cols, 1).double()
src_mass = tgt.double().sum(1)
mass = proj.sum(1)
support = torch.linspace(VMIN, VMAX, N).double()
tz = (reward.double() + (1 - done.double()) * 0.99 * support).clamp(VMIN, VMAX)
mean_ref = (tgt.double() * tz).sum(1)
mean = (proj * support).sum(1)
for i in range(B):
    print(
        f"[B] row {i}: source mass {src_mass[i]:.7f}  projected mass {mass[i]:.7f}  "
        f"diff {mass[i] - src_mass[i]:+.2e} | mean {mean[i]:.5f} expected {mean_ref[i]:.5f}"
    )
if (mass - src_mass).abs().max() > 1e-6:
    failures.append(
        "B: projected mass differs from the source mass (row 0 leaks into atom 0 of row 1)"
    )
if ((mean - mean_ref).abs() / (VMAX - VMIN)).max() > 1e-5:
    failures.append("B: projected mean differs from the clipped Bellman mean")

if failures:
    print("\nPROPERTY VIOLATED:")
    for f in failures:
        print("  -", f)
    sys.exit(1)
print("\nproperty holds")
sys.exit(0)
