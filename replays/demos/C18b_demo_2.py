"""C18 demo 2: RainbowDQN cannot compute its distributional loss for a MakeEvolvable actor.

RainbowDQN accepts `actor_network=MakeEvolvable(...)` (it switches the wrapper to rainbow mode and
hands it support / num_atoms), get_action works, checkpoints work -- but `_dqn_loss` asks the
online network for log-probabilities with `self.actor(states, q=False, log=True)` and
`MakeEvolvable.forward(x, xc=None, q=True)` has no `log` parameter.  learn() therefore raises
TypeError for every batch, 1-step, n-step or combined, with or without PER.

The demo calls learn(per=True) and compares the returned priorities with the cross-entropy
between the hand-computed projection of the target network's distribution and the online
distribution.  Exits 1 when the property is violated, 0 otherwise.
"""
import sys
import warnings

import numpy as np
import torch
import torch.nn as nn
from gymnasium import spaces
from tensordict import TensorDict

warnings.filterwarnings("ignore")
torch.set_num_threads(2)
torch.manual_seed(0)

from agilerl.algorithms.dqn_rainbow import RainbowDQN
from agilerl.wrappers.make_evolvable import MakeEvolvable

N, VMIN, VMAX, B, NA, GAMMA = 11, -2.0, 8.0, 5, 3, 0.9

net = nn.Sequential(nn.Linear(4, 16), nn.ReLU(), nn.Linear(16, NA))
actor = MakeEvolvable(net, torch.randn(1, 4))
agent = RainbowDQN(
    spaces.Box(-1, 1, (4,)),
    spaces.Discrete(NA),
    num_atoms=N,
    v_min=VMIN,
    v_max=VMAX,
    batch_size=B,
    gamma=GAMMA,
    actor_network=actor,
)
print("actor:", type(agent.actor).__name__, "rainbow =", agent.actor.rainbow)

obs, nobs = torch.randn(B, 4), torch.randn(B, 4)
act = torch.tensor([[0], [1], [2], [1], [0]])
rew = torch.tensor([[0.0], [1.0], [9.5], [-3.0], [0.37]])
done = torch.tensor([[0.0], [1.0], [0.0], [0.0], [1.0]])
print("get_action works:", agent.get_action(obs.numpy()))

# ---- reference, by hand --------------------------------------------------------------
with torch.no_grad():
    next_a = agent.actor(nobs).argmax(1)
    tq = agent.actor_target(nobs, q=False)  # (B, NA, N)
    online = agent.actor(obs, q=False)  # (B, NA, N); equals the softmax while no prob < 1e-3
assert online.min() > 1e-3, "clamp active, reference not valid"
support = np.linspace(VMIN, VMAX, N)
dz = (VMAX - VMIN) / (N - 1)
want = np.zeros(B)
for i in range(B):
    p = tq[i, next_a[i]].double().numpy()
    m = np.zeros(N)
    for j in range(N):
        tz = min(max(float(rew[i]) + (1 - float(done[i])) * GAMMA * support[j], VMIN), VMAX)
        b = (tz - VMIN) / dz
        lo, up = int(np.floor(b)), int(np.ceil(b))
        if lo == up:
            m[lo] += p[j]
        else:
            m[lo] += p[j] * (up - b)
            m[up] += p[j] * (b - lo)
    want[i] = -(m * np.log(online[i, int(act[i])].double().numpy())).sum()
print("expected per-sample cross-entropy:", np.round(want, 5))

batch = TensorDict(
    {
        "obs": obs,
        "action": act,
        "reward": rew,
        "next_obs": nobs,
        "done": done,
        "weights": torch.ones(B, 1),
        "idxs": torch.arange(B).unsqueeze(1),
    },
    batch_size=[B],
)
try:
    loss, idxs, prios = agent.learn(batch, per=True)
except Exception as exc:  # noqa: BLE001
    print(f"learn() raised {type(exc).__name__}: {exc}")
    print("\nPROPERTY VIOLATED: no loss / priorities can be computed for a MakeEvolvable actor")
    sys.exit(1)

got = np.asarray(prios).reshape(-1) - agent.prior_eps
print("returned priorities - eps:        ", np.round(got, 5))
if np.abs(got - want).max() > 1e-4:
    print("\nPROPERTY VIOLATED: priorities are not the cross-entropy of the projected target")
    sys.exit(1)
print("\nproperty holds")
sys.exit(0)
