"""C18 demo 3 (minor): degenerate supports pass the constructor's checks but have no projection.

RainbowDQN.__init__ asserts `num_atoms >= 1` and `v_max >= v_min`, i.e. it explicitly admits a
single atom and a zero-width support, then computes delta_z = (v_max - v_min) / (num_atoms - 1):
  * num_atoms = 1           -> ZeroDivisionError inside the constructor;
  * v_min == v_max, N >= 2  -> delta_z = 0, b = 0/0 = NaN, NaN.long() is a garbage index and
                               learn() dies in index_add_ (IndexError).
The demo passes (exit 0) if each configuration is either rejected up front with a clear
AssertionError/ValueError or yields finite priorities; it exits 1 otherwise.
"""
import sys
import warnings

import numpy as np
import torch
from gymnasium import spaces
from tensordict import TensorDict

warnings.filterwarnings("ignore")
torch.set_num_threads(2)
torch.manual_seed(0)

from agilerl.algorithms.dqn_rainbow import RainbowDQN

B = 4
failures = []
for kw in (dict(num_atoms=1, v_min=0.0, v_max=1.0), dict(num_atoms=5, v_min=1.0, v_max=1.0)):
    try:
        agent = RainbowDQN(spaces.Box(-1, 1, (4,)), spaces.Discrete(3), batch_size=B, **kw)
    except (AssertionError, ValueError) as exc:
        print(kw, "-> rejected by the constructor:", exc)
        continue
    except Exception as exc:  # noqa: BLE001
        print(kw, f"-> constructor raised {type(exc).__name__}: {exc}")
        failures.append(f"{kw}: accepted by the argument checks, then {type(exc).__name__}")
        continue
    batch = TensorDict(
        {
            "obs": torch.randn(B, 4),
            "action": torch.zeros(B, 1, dtype=torch.long),
            "reward": torch.rand(B, 1),
            "next_obs": torch.randn(B, 4),
            "done": torch.zeros(B, 1),
            "weights": torch.ones(B, 1),
            "idxs": torch.arange(B).unsqueeze(1),
        },
        batch_size=[B],
    )
    try:
        loss, _, prios = agent.learn(batch, per=True)
        print(kw, "-> learn() returned", loss, prios)
        if not np.isfinite(prios).all():
            failures.append(f"{kw}: non-finite priorities")
    except Exception as exc:  # noqa: BLE001
        print(kw, f"-> constructed (delta_z={agent.delta_z}), learn() raised {type(exc).__name__}: {exc}")
        failures.append(f"{kw}: constructed, but the projection fails with {type(exc).__name__}")

if failures:
    print("\nPROPERTY VIOLATED:")
    for f in failures:
        print("  -", f)
    sys.exit(1)
print("\nproperty holds")
sys.exit(0)
