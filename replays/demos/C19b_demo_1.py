"""C19 demo 1: the float32 Sherman-Morrison update destroys the inverse (and positive definiteness).

sigma_inv is kept in float32 and updated with  S -= (S v v^T S) / (1 + v^T S v).
In the direction of v the exact result is s / (1 + s |v|^2) (s ~ 1/lambda), but it is computed
as the difference of two numbers of size s.  As soon as |v|^2 / lambda reaches ~1e7 (float32 has
7 digits) nothing of the true value survives and the entry can become <= 0.

Configuration (all public API): a custom EvolvableMLP actor (hidden [64], no layer norm),
lambda = 0.001 (in the NeuralUCB paper's grid), unnormalised contexts ~ N(0, 10^2).
Observed on the current code: after the FIRST decision sigma_inv already has a negative eigenvalue
and |sigma_inv @ (lambda I + sum g g^T) - I| is O(10); within a few decisions arms get a
negative "variance": NeuralUCB's bonus is NaN (np.argmax then returns the NaN arm), and
NeuralTS raises "normal expects all elements of std >= 0.0".
Exits 1 when the property is violated, 0 otherwise.
"""
import sys
import warnings

import numpy as np
import torch
from gymnasium import spaces

warnings.filterwarnings("ignore")
torch.set_num_threads(2)

from agilerl.algorithms.neural_ts_bandit import NeuralTS
from agilerl.algorithms.neural_ucb_bandit import NeuralUCB
from agilerl.modules.mlp import EvolvableMLP

DIM, ARMS, LAMB, SCALE, STEPS = 8, 4, 0.001, 10.0, 40
failures = []


def features(agent, obs, arm):
    """Gradient feature of `arm`, recomputed independently of the agent's bookkeeping."""
    layer = agent.actor.get_output_dense()
    out = agent.actor(torch.as_tensor(obs))
    grads = torch.autograd.grad(out[arm].sum(), list(layer.parameters()))
    g = torch.cat([x.flatten() for x in grads]).double().numpy()
    return g / np.sqrt(layer.weight.size(0))


for cls in (NeuralUCB, NeuralTS):
    torch.manual_seed(0)
    rng = np.random.default_rng(1)
    net = EvolvableMLP(num_inputs=DIM, num_outputs=1, hidden_size=[64], layer_norm=False)
    agent = cls(
        spaces.Box(-np.inf, np.inf, (DIM,)),
        spaces.Discrete(ARMS),
        actor_network=net,
        lamb=LAMB,
    )
    n = agent.numel
    A = LAMB * np.eye(n)  # reference Gram matrix in float64
    first_bad = None
    worst_resid = 0.0
    crashed = None
    for t in range(STEPS):
        obs = (rng.normal(size=(ARMS, DIM)) * SCALE).astype(np.float32)
        try:
            arm = int(agent.get_action(obs))
        except Exception as exc:  # noqa: BLE001
            crashed = (t, f"{type(exc).__name__}: {exc}")
            break
        g = features(agent, obs, arm)
        A += np.outer(g, g)
        S = agent.sigma_inv.detach().double().cpu().numpy()
        resid = np.abs(S @ A - np.eye(n)).max()
        worst_resid = max(worst_resid, resid)
        min_eig = np.linalg.eigvalsh((S + S.T) / 2).min()
        # exploration "variance" g S g^T of every arm for this context must be >= 0
        G = np.stack([features(agent, obs, k) for k in range(ARMS)])
        var = np.einsum("ki,ij,kj->k", G, S, G)
        if first_bad is None and (min_eig <= 0 or (var < 0).any() or not np.isfinite(S).all()):
            first_bad = (t, min_eig, var.min(), float(g @ g))
    name = cls.__name__
    print(f"{name}: max |sigma_inv @ A - I| over the run = {worst_resid:.3e}")
    if first_bad is not None:
        t, ev, v, gg = first_bad
        print(
            f"{name}: after decision #{t + 1} (|g|^2 = {gg:.3e}, |g|^2/lambda = {gg / LAMB:.1e}) "
            f"min eigenvalue = {ev:.3e}, min arm variance g S g^T = {v:.3e}"
        )
        failures.append(f"{name}: sigma_inv is not positive definite after decision #{t + 1}")
    if crashed is not None:
        print(f"{name}: get_action crashed at decision #{crashed[0] + 1}: {crashed[1]}")
        failures.append(f"{name}: get_action raised at decision #{crashed[0] + 1}")
    if worst_resid > 1e-2:
        failures.append(f"{name}: sigma_inv is not the inverse of the Gram matrix (residual {worst_resid:.2e})")

if failures:
    print("\nPROPERTY VIOLATED:")
    for f in failures:
        print("  -", f)
    sys.exit(1)
print("\nproperty holds")
sys.exit(0)
