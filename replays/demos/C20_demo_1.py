"""C20 demo 1: what the Sampler returns is NOT accepted by TD3.learn() / CQN.learn().

train_off_policy(algo="TD3") and train_offline(algo="CQN") are run with the real
ReplayBuffer + Sampler on a tiny vectorised counting environment.  ReplayBuffer.sample()
returns a TensorDict, but TD3.learn and CQN.learn still do
    states, actions, rewards, next_states, dones = experiences
so the first learn() call raises (ValueError for batch_size != 5, AssertionError for 5).

Exit 1 = defect present, exit 0 = both loops complete with correct accounting.
"""
import sys
import traceback
import warnings

warnings.filterwarnings("ignore")
import gymnasium as gym
import numpy as np
from gymnasium import spaces

from agilerl.components import ReplayBuffer
from agilerl.training.train_off_policy import train_off_policy
from agilerl.training.train_offline import train_offline
from agilerl.utils.utils import create_population

COUNT = {"n": 0}


class CountEnv(gym.Env):
    def __init__(self, discrete):
        self.observation_space = spaces.Box(-1, 1, (4,), np.float32)
        self.action_space = (
            spaces.Discrete(2) if discrete else spaces.Box(-1, 1, (2,), np.float32)
        )
        self.t = 0

    def reset(self, seed=None, options=None):
        super().reset(seed=seed)
        self.t = 0
        return self.observation_space.sample(), {}

    def step(self, action):
        COUNT["n"] += 1
        self.t += 1
        return self.observation_space.sample(), 1.0, self.t >= 7, False, {}


NET = {"encoder_config": {"hidden_size": [8]}, "head_config": {"hidden_size": [16]}}
failures = []


def check(name, pop, fits, n_pop, gens, steps_each):
    if len(pop) != n_pop or len({a.index for a in pop}) != n_pop:
        failures.append(f"{name}: population size/indices wrong")
    if [a.steps[-1] for a in pop] != [steps_each] * n_pop:
        failures.append(f"{name}: steps {[a.steps[-1] for a in pop]} != {steps_each}")
    if len(fits) != gens or any(len(a.fitness) != gens for a in pop):
        failures.append(f"{name}: fitness entries {len(fits)} != generations {gens}")


# ---- TD3 through train_off_policy ------------------------------------------------
for batch_size in (4, 5):
    env = gym.vector.SyncVectorEnv([lambda: CountEnv(False) for _ in range(2)])
    pop = create_population(
        "TD3",
        env.single_observation_space,
        env.single_action_space,
        NET,
        {"BATCH_SIZE": batch_size, "LEARN_STEP": 2, "SHARE_ENCODERS": False},
        population_size=2,
        num_envs=2,
    )
    try:
        pop, fits = train_off_policy(
            env, "count", "TD3", pop, ReplayBuffer(max_size=500),
            max_steps=20, evo_steps=10, eval_steps=3, verbose=False,
        )
        check(f"TD3 bs={batch_size}", pop, fits, 2, 2, 20)
    except Exception as e:  # noqa
        tb = traceback.extract_tb(e.__traceback__)[-1]
        failures.append(
            f"train_off_policy(TD3, ReplayBuffer, batch_size={batch_size}) raised "
            f"{type(e).__name__}: {e}  [{tb.filename.split('/')[-1]}:{tb.lineno}]"
        )

# ---- CQN through train_offline ---------------------------------------------------
env = gym.vector.SyncVectorEnv([lambda: CountEnv(True) for _ in range(2)])
N = 40
rng = np.random.default_rng(0)
dataset = {
    "observations": rng.random((N, 4)).astype(np.float32),
    "actions": rng.integers(0, 2, (N, 1)),
    "rewards": rng.random((N, 1)).astype(np.float32),
    "terminals": np.zeros((N, 1)),
}
pop = create_population(
    "CQN",
    env.single_observation_space,
    env.single_action_space,
    NET,
    {"BATCH_SIZE": 4, "LEARN_STEP": 1},
    population_size=2,
    num_envs=2,
)
try:
    pop, fits = train_offline(
        env, "count", dataset, "CQN", pop, ReplayBuffer(max_size=500),
        max_steps=6, evo_steps=3, eval_steps=3, verbose=False,
    )
    check("CQN", pop, fits, 2, 2, 6)
except Exception as e:  # noqa
    tb = traceback.extract_tb(e.__traceback__)[-1]
    failures.append(
        f"train_offline(CQN, ReplayBuffer) raised {type(e).__name__}: {e}  "
        f"[{tb.filename.split('/')[-1]}:{tb.lineno}]"
    )

print()
if failures:
    print("DEFECT (C20): sampler output is not accepted by learn():")
    for f in failures:
        print("  -", f)
    sys.exit(1)
print("OK: TD3 / CQN train end to end with the real ReplayBuffer")
sys.exit(0)
