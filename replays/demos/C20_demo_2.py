"""C20 demo 2: train_bandits cannot run NeuralUCB / NeuralTS on the library's own BanditEnv.

train_bandits stores the *whole* float64 context matrix (arms x dim) as "obs"
(train_bandits.py:216-224) instead of the chosen arm's float32 feature vector
(`context[action]` + `.float()`, as every demo/tutorial/doc loop does).  As soon as the
buffer holds batch_size transitions, learn() feeds the float64 sample to the float32
network and raises "mat1 and mat2 must have the same dtype".

Exit 1 = defect present, exit 0 = both bandit algorithms train to completion with the
right step / fitness / population accounting.
"""
import sys
import traceback
import warnings

warnings.filterwarnings("ignore")
import numpy as np
import pandas as pd
from gymnasium import spaces

from agilerl.components import ReplayBuffer
from agilerl.training.train_bandits import train_bandits
from agilerl.utils.utils import create_population
from agilerl.wrappers.learning import BanditEnv

rng = np.random.default_rng(0)
features = pd.DataFrame(rng.random((20, 3)))
targets = pd.DataFrame(rng.integers(0, 2, (20, 1)))
STEP = {"n": 0}


class CountingBanditEnv(BanditEnv):
    def step(self, k):
        STEP["n"] += 1
        return super().step(k)


failures = []
for algo in ("NeuralUCB", "NeuralTS"):
    env = CountingBanditEnv(features, targets)
    pop = create_population(
        algo,
        spaces.Box(0, 1, env.context_dim),
        spaces.Discrete(env.arms),
        {"encoder_config": {"hidden_size": [8]}},
        {"BATCH_SIZE": 4, "LEARN_STEP": 1},
        population_size=2,
    )
    STEP["n"] = 0
    try:
        pop, fits = train_bandits(
            env, "bandit", algo, pop, ReplayBuffer(max_size=500),
            max_steps=20, episode_steps=5, evo_steps=10, eval_steps=3, verbose=False,
        )
    except Exception as e:  # noqa
        tb = traceback.extract_tb(e.__traceback__)
        where = [f for f in tb if "/agilerl/" in f.filename]
        loc = ", ".join(f"{f.filename.split('/')[-1]}:{f.lineno}" for f in where[:2])
        failures.append(
            f"train_bandits({algo}) raised {type(e).__name__}: {e}  [{loc}] "
            f"after {STEP['n']} env steps"
        )
        continue
    gens = 4
    if [a.steps[-1] for a in pop] != [20, 20]:
        failures.append(f"{algo}: steps {[a.steps[-1] for a in pop]}")
    if STEP["n"] != gens * 2 * 5 + gens * 2 * 3:
        failures.append(f"{algo}: env steps {STEP['n']}")
    if len(fits) != gens or any(len(a.fitness) != gens for a in pop):
        failures.append(f"{algo}: fitness entries")
    if len(pop) != 2 or len({a.index for a in pop}) != 2:
        failures.append(f"{algo}: population")

print()
if failures:
    print("DEFECT (C20): the bandit loop does not compose with BanditEnv + learn():")
    for f in failures:
        print("  -", f)
    sys.exit(1)
print("OK: train_bandits runs NeuralUCB and NeuralTS to completion")
sys.exit(0)
