"""C20 demo 3: a single (non-vectorised) Gymnasium env cannot finish one generation.

train_off_policy / train_on_policy (and train_offline) have explicit `is_vectorised = False`
branches ("env: ... Can be vectorized"), but evaluation is delegated to agent.test(), and
every single-agent test() (dqn.py:400-403, dqn_rainbow.py:504, ddpg.py:504, td3.py:527,
ppo.py:537, cqn.py:311) passes the batched action array to env.step and iterates
`zip(done, trunc)` - with a real gymnasium.Env these are Python bools -> TypeError at the
first evaluation.  (tests/test_algorithms "unvectorized" tests use a DummyEnv that returns
length-1 arrays, so they never see this.)

Exit 1 = defect present, exit 0 = the loops finish with correct accounting.
"""
import sys
import traceback
import warnings

warnings.filterwarnings("ignore")
import gymnasium as gym
import numpy as np
from gymnasium import spaces

from agilerl.components import ReplayBuffer
from agilerl.training.train_off_policy import train_off_policy
from agilerl.training.train_on_policy import train_on_policy
from agilerl.utils.utils import create_population

COUNT = {"n": 0}


class CountEnv(gym.Env):
    """Plain Gymnasium env: scalar reward, Python-bool terminated/truncated."""

    def __init__(self):
        self.observation_space = spaces.Box(-1, 1, (4,), np.float32)
        self.action_space = spaces.Discrete(2)
        self.t = 0

    def reset(self, seed=None, options=None):
        super().reset(seed=seed)
        self.t = 0
        return self.observation_space.sample(), {}

    def step(self, action):
        COUNT["n"] += 1
        self.t += 1
        return self.observation_space.sample(), 1.0, bool(self.t >= 7), False, {}


NET = {"encoder_config": {"hidden_size": [8]}, "head_config": {"hidden_size": [16]}}
failures = []


def run(name, fn):
    COUNT["n"] = 0
    try:
        pop, fits = fn()
    except Exception as e:  # noqa
        tb = [f for f in traceback.extract_tb(e.__traceback__) if "/agilerl/" in f.filename]
        loc = ", ".join(f"{f.filename.split('/')[-1]}:{f.lineno}" for f in tb[-2:])
        failures.append(
            f"{name} raised {type(e).__name__}: {e}  [{loc}] after {COUNT['n']} env steps"
        )
        return
    gens = 2
    if [a.steps[-1] for a in pop] != [20, 20]:
        failures.append(f"{name}: steps {[a.steps[-1] for a in pop]}")
    if len(fits) != gens or any(len(a.fitness) != gens for a in pop):
        failures.append(f"{name}: fitness entries")
    if COUNT["n"] != gens * 2 * 10 + gens * 2 * 3:
        failures.append(f"{name}: env steps {COUNT['n']} != {gens * 2 * 13}")


env = CountEnv()
dqn = create_population(
    "DQN", env.observation_space, env.action_space, NET,
    {"BATCH_SIZE": 4, "LEARN_STEP": 2}, population_size=2,
)
run(
    "train_off_policy(DQN, plain gym.Env)",
    lambda: train_off_policy(
        env, "count", "DQN", dqn, ReplayBuffer(max_size=500),
        max_steps=20, evo_steps=10, eval_steps=3, verbose=False,
    ),
)

ppo = create_population(
    "PPO", env.observation_space, env.action_space, NET,
    {"BATCH_SIZE": 4, "LEARN_STEP": 5, "UPDATE_EPOCHS": 1, "SHARE_ENCODERS": False},
    population_size=2,
)
run(
    "train_on_policy(PPO, plain gym.Env)",
    lambda: train_on_policy(
        env, "count", "PPO", ppo, max_steps=20, evo_steps=10, eval_steps=3, verbose=False
    ),
)

print()
if failures:
    print("DEFECT (C20): training and evaluation do not fit together on a single env:")
    for f in failures:
        print("  -", f)
    sys.exit(1)
print("OK: non-vectorised environments train and evaluate end to end")
sys.exit(0)
