"""C20 demo 4: train_multi_agent_on_policy returns len(pop) bogus fitness entries.

train_multi_agent_on_policy.py:190 initialises
    pop_fitnesses = [{agent_id: [] for agent_id in agent_ids} for _ in pop]
and line 375 then *appends* one list per generation, so the returned history is
    [{'a': []}, {'a': []}, [f, f], [f, f], ...]
i.e. len(pop) extra leading entries that are not fitnesses.  Every other loop starts from [].

Exit 1 = defect present, exit 0 = exactly one fitness row per generation.
"""
import functools
import sys
import warnings

warnings.filterwarnings("ignore")
import numpy as np
from gymnasium import spaces
from pettingzoo import ParallelEnv

from agilerl.training.train_multi_agent_on_policy import train_multi_agent_on_policy
from agilerl.utils.utils import create_population

COUNT = {"n": 0}


class CountPZ(ParallelEnv):
    metadata = {"name": "countpz"}

    def __init__(self, ep_len=3, names=("a_0", "a_1")):
        self.possible_agents = list(names)
        self.agents = list(names)
        self.ep_len, self.t, self.render_mode = ep_len, 0, None

    @functools.lru_cache(maxsize=None)
    def observation_space(self, agent):
        return spaces.Box(-1, 1, (4,), np.float32)

    @functools.lru_cache(maxsize=None)
    def action_space(self, agent):
        return spaces.Discrete(2)

    def reset(self, seed=None, options=None):
        self.agents, self.t = list(self.possible_agents), 0
        return ({a: self.observation_space(a).sample() for a in self.agents},
                {a: {} for a in self.agents})

    def step(self, actions):
        COUNT["n"] += 1
        self.t += 1
        done = self.t >= self.ep_len
        return ({a: self.observation_space(a).sample() for a in self.agents},
                {a: 1.0 for a in self.agents},
                {a: done for a in self.agents},
                {a: False for a in self.agents},
                {a: {} for a in self.agents})


env = CountPZ()
env.reset()
ids = list(env.agents)
INIT_HP = {"BATCH_SIZE": 4, "LEARN_STEP": 4, "AGENT_IDS": ids, "LR": 1e-3, "GAMMA": 0.99,
           "GAE_LAMBDA": 0.95, "ACTION_STD_INIT": 0.6, "CLIP_COEF": 0.2, "ENT_COEF": 0.01,
           "VF_COEF": 0.5, "MAX_GRAD_NORM": 0.5, "TARGET_KL": None, "UPDATE_EPOCHS": 1}
NET = {"encoder_config": {"hidden_size": [8]}, "head_config": {"hidden_size": [16]}}
pop = create_population(
    "IPPO", [env.observation_space(a) for a in ids], [env.action_space(a) for a in ids],
    NET, INIT_HP, population_size=2,
)
# budget is summed over the population: 2 agents x 8 steps per generation -> 2 generations
pop, fits = train_multi_agent_on_policy(
    env, "countpz", "IPPO", pop, max_steps=30, evo_steps=8, eval_steps=3, verbose=False
)
gens = len(pop[0].fitness)
print()
print("generations run        :", gens, " steps:", [a.steps[-1] for a in pop])
print("returned pop_fitnesses :", fits)
problems = []
if COUNT["n"] != gens * 2 * 8 + gens * 2 * 3:
    problems.append(f"env steps {COUNT['n']}")
if [a.steps[-1] for a in pop] != [8 * gens] * 2 or sum(a.steps[-1] for a in pop) < 30:
    problems.append("step accounting")
if len(fits) != gens:
    problems.append(
        f"{len(fits)} fitness rows returned for {gens} generations "
        f"(first rows: {fits[:len(fits) - gens]})"
    )
if any(not isinstance(row, list) or len(row) != len(pop) for row in fits):
    problems.append("a returned row is not a list with one fitness per agent")
if problems:
    print("DEFECT (C20):", "; ".join(problems))
    sys.exit(1)
print("OK: one fitness row per generation")
sys.exit(0)
