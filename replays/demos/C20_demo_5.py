"""C20 demo 5: both multi-agent loops crash with sum_scores=False when a generation
finishes no episode (episode longer than evo_steps - the default evo_steps is 25).

train_multi_agent_off_policy.py:413-419 / train_multi_agent_on_policy.py:399-405:
    pop_mean_scores = [np.mean(np.array(score), axis=0) for score in pop_episode_scores if score]
    if pop_episode_scores:          # <- list of (empty) per-agent lists: always truthy
        mean_scores = np.stack(pop_mean_scores, axis=0)   # ValueError: need at least one array
The guard tests the wrong list, so the "no completed episodes" branch is unreachable.

Exit 1 = defect present, exit 0 = both loops run to completion with correct accounting.
"""
import functools
import sys
import traceback
import warnings

warnings.filterwarnings("ignore")
import numpy as np
from gymnasium import spaces
from pettingzoo import ParallelEnv

from agilerl.components import MultiAgentReplayBuffer
from agilerl.training.train_multi_agent_off_policy import train_multi_agent_off_policy
from agilerl.training.train_multi_agent_on_policy import train_multi_agent_on_policy
from agilerl.utils.utils import create_population


class LongPZ(ParallelEnv):
    """Episodes last 50 steps, i.e. longer than one generation (evo_steps=8)."""

    metadata = {"name": "longpz"}

    def __init__(self, ep_len=50, names=("speaker_0", "listener_0")):
        self.possible_agents = list(names)
        self.agents = list(names)
        self.ep_len, self.t, self.render_mode = ep_len, 0, None

    @functools.lru_cache(maxsize=None)
    def observation_space(self, agent):
        return spaces.Box(-1, 1, (4,), np.float32)

    @functools.lru_cache(maxsize=None)
    def action_space(self, agent):
        return spaces.Discrete(2)

    def reset(self, seed=None, options=None):
        self.agents, self.t = list(self.possible_agents), 0
        return ({a: self.observation_space(a).sample() for a in self.agents},
                {a: {} for a in self.agents})

    def step(self, actions):
        self.t += 1
        done = self.t >= self.ep_len
        return ({a: self.observation_space(a).sample() for a in self.agents},
                {a: 1.0 for a in self.agents},
                {a: done for a in self.agents},
                {a: False for a in self.agents},
                {a: {} for a in self.agents})


NET = {"encoder_config": {"hidden_size": [8]}, "head_config": {"hidden_size": [16]}}
failures = []


def attempt(name, fn, expect_steps):
    try:
        pop, fits = fn()
    except Exception as e:  # noqa
        tb = [f for f in traceback.extract_tb(e.__traceback__) if "/agilerl/" in f.filename]
        failures.append(
            f"{name} raised {type(e).__name__}: {e}  "
            f"[{tb[-1].filename.split('/')[-1]}:{tb[-1].lineno}]"
        )
        return
    if [a.steps[-1] for a in pop] != expect_steps:
        failures.append(f"{name}: steps {[a.steps[-1] for a in pop]} != {expect_steps}")


for verbose in (False, True):
    env = LongPZ()
    env.reset()
    ids = list(env.agents)
    osp = [env.observation_space(a) for a in ids]
    asp = [env.action_space(a) for a in ids]

    pop = create_population("MADDPG", osp, asp, NET,
                            {"BATCH_SIZE": 4, "LEARN_STEP": 2, "AGENT_IDS": ids},
                            population_size=2)
    mem = MultiAgentReplayBuffer(500, ["state", "action", "reward", "next_state", "done"], ids)
    attempt(
        f"train_multi_agent_off_policy(MADDPG, sum_scores=False, verbose={verbose})",
        lambda: train_multi_agent_off_policy(
            env, "longpz", "MADDPG", pop, mem, max_steps=16, evo_steps=8, eval_steps=3,
            sum_scores=False, verbose=verbose),
        [16, 16],
    )

    HP = {"BATCH_SIZE": 4, "LEARN_STEP": 4, "AGENT_IDS": ids, "LR": 1e-3, "GAMMA": 0.99,
          "GAE_LAMBDA": 0.95, "ACTION_STD_INIT": 0.6, "CLIP_COEF": 0.2, "ENT_COEF": 0.01,
          "VF_COEF": 0.5, "MAX_GRAD_NORM": 0.5, "TARGET_KL": None, "UPDATE_EPOCHS": 1}
    pop = create_population("IPPO", osp, asp, NET, HP, population_size=2)
    attempt(
        f"train_multi_agent_on_policy(IPPO, sum_scores=False, verbose={verbose})",
        lambda: train_multi_agent_on_policy(
            env, "longpz", "IPPO", pop, max_steps=30, evo_steps=8, eval_steps=3,
            sum_scores=False, verbose=verbose),
        [16, 16],
    )

print()
if failures:
    print("DEFECT (C20): a generation without a finished episode aborts training:")
    for f in failures:
        print("  -", f)
    sys.exit(1)
print("OK: generations without finished episodes are handled")
sys.exit(0)
