"""C20 demo 6: train_multi_agent_on_policy(sum_scores=False) cannot run IPPO when
(a) agents are grouped ("a_0", "a_1" share one network) or (b) there are more agent
groups than population members and verbose=True (the default).

(a) train_multi_agent_on_policy.py:188/209-213 size the score matrix by
    pop[0].shared_agent_ids (one column per *group*) but line 285 builds the increment from
    the raw per-agent reward dict (one column per *agent*); IPPO.test() calls
    self.sum_shared_rewards(reward) first, the training loop does not ->
    "non-broadcastable output operand" at `scores += score_increment` on the first step.
(b) lines 525-530 index the (population x group) arrays by the *group* index along the
    population axis (`avg_fitness_arr[idx]`, `avg_score_arr[idx]`; the off-policy twin uses
    `[:, idx]`) -> IndexError as soon as n_groups > len(pop), wrong numbers otherwise.

Exit 1 = defect present, exit 0 = both configurations train to completion.
"""
import functools
import sys
import traceback
import warnings

warnings.filterwarnings("ignore")
import numpy as np
from gymnasium import spaces
from pettingzoo import ParallelEnv

from agilerl.training.train_multi_agent_on_policy import train_multi_agent_on_policy
from agilerl.utils.utils import create_population


class CountPZ(ParallelEnv):
    metadata = {"name": "countpz"}

    def __init__(self, names, ep_len=3):
        self.possible_agents = list(names)
        self.agents = list(names)
        self.ep_len, self.t, self.render_mode = ep_len, 0, None

    @functools.lru_cache(maxsize=None)
    def observation_space(self, agent):
        return spaces.Box(-1, 1, (4,), np.float32)

    @functools.lru_cache(maxsize=None)
    def action_space(self, agent):
        return spaces.Discrete(2)

    def reset(self, seed=None, options=None):
        self.agents, self.t = list(self.possible_agents), 0
        return ({a: self.observation_space(a).sample() for a in self.agents},
                {a: {} for a in self.agents})

    def step(self, actions):
        self.t += 1
        done = self.t >= self.ep_len
        return ({a: self.observation_space(a).sample() for a in self.agents},
                {a: 1.0 for a in self.agents},
                {a: done for a in self.agents},
                {a: False for a in self.agents},
                {a: {} for a in self.agents})


NET = {"encoder_config": {"hidden_size": [8]}, "head_config": {"hidden_size": [16]}}
failures = []


def attempt(label, names, pop_size, verbose):
    env = CountPZ(names)
    env.reset()
    ids = list(env.agents)
    HP = {"BATCH_SIZE": 4, "LEARN_STEP": 4, "AGENT_IDS": ids, "LR": 1e-3, "GAMMA": 0.99,
          "GAE_LAMBDA": 0.95, "ACTION_STD_INIT": 0.6, "CLIP_COEF": 0.2, "ENT_COEF": 0.01,
          "VF_COEF": 0.5, "MAX_GRAD_NORM": 0.5, "TARGET_KL": None, "UPDATE_EPOCHS": 1}
    pop = create_population(
        "IPPO", [env.observation_space(a) for a in ids], [env.action_space(a) for a in ids],
        NET, HP, population_size=pop_size,
    )
    try:
        pop, fits = train_multi_agent_on_policy(
            env, "countpz", "IPPO", pop, max_steps=8 * pop_size * 2 - 1, evo_steps=8,
            eval_steps=3, sum_scores=False, verbose=verbose,
        )
    except Exception as e:  # noqa
        tb = [f for f in traceback.extract_tb(e.__traceback__) if "/agilerl/" in f.filename]
        failures.append(
            f"{label}: {type(e).__name__}: {e}  "
            f"[{tb[-1].filename.split('/')[-1]}:{tb[-1].lineno}]"
        )
        return
    if [a.steps[-1] for a in pop] != [16] * pop_size:
        failures.append(f"{label}: steps {[a.steps[-1] for a in pop]}")
    if len(pop) != pop_size or len({a.index for a in pop}) != pop_size:
        failures.append(f"{label}: population")


attempt("(a) homogeneous agents a_0,a_1, sum_scores=False", ("a_0", "a_1"), 2, False)
attempt("(b) 3 groups, population of 2, sum_scores=False, verbose=True",
        ("a_0", "b_0", "c_0"), 2, True)

print()
if failures:
    print("DEFECT (C20): train_multi_agent_on_policy(sum_scores=False) does not complete:")
    for f in failures:
        print("  -", f)
    sys.exit(1)
print("OK")
sys.exit(0)
