"""C20 demo 7: train_off_policy(memory=MultiStepReplayBuffer, n_step=True) crashes.

`memory` is typed Union[ReplayBuffer, PrioritizedReplayBuffer, MultiStepReplayBuffer] and
`n_step` is documented as "Use multi-step experience replay buffer", but the `n_step` flag is
never read.  Sampler(memory=<MultiStepReplayBuffer>) binds `sample` to
sample_n_step(idxs) (sampler.py:92-95, 179-187) while the loop calls
sampler.sample(agent.batch_size, return_idx=...) (train_off_policy.py:355/388)
-> TypeError on the first learn step.

Exit 1 = defect present, exit 0 = Rainbow DQN trains on an n-step memory.
"""
import sys
import traceback
import warnings

warnings.filterwarnings("ignore")
import gymnasium as gym
import numpy as np
from gymnasium import spaces

from agilerl.components import MultiStepReplayBuffer
from agilerl.training.train_off_policy import train_off_policy
from agilerl.utils.utils import create_population


class CountEnv(gym.Env):
    def __init__(self):
        self.observation_space = spaces.Box(-1, 1, (4,), np.float32)
        self.action_space = spaces.Discrete(2)
        self.t = 0

    def reset(self, seed=None, options=None):
        super().reset(seed=seed)
        self.t = 0
        return self.observation_space.sample(), {}

    def step(self, action):
        self.t += 1
        return self.observation_space.sample(), 1.0, self.t >= 7, False, {}


env = gym.vector.SyncVectorEnv([CountEnv for _ in range(2)])
NET = {"encoder_config": {"hidden_size": [8]}, "head_config": {"hidden_size": [16]}}
pop = create_population(
    "Rainbow DQN", env.single_observation_space, env.single_action_space, NET,
    {"BATCH_SIZE": 4, "LEARN_STEP": 2, "NUM_ATOMS": 5, "N_STEP": 3},
    population_size=2, num_envs=2,
)
memory = MultiStepReplayBuffer(max_size=500, n_step=3, gamma=0.99)
try:
    pop, fits = train_off_policy(
        env, "count", "Rainbow DQN", pop, memory, n_step=True,
        max_steps=20, evo_steps=10, eval_steps=3, verbose=False,
    )
except Exception as e:  # noqa
    tb = [f for f in traceback.extract_tb(e.__traceback__) if "/agilerl/" in f.filename]
    print()
    print(f"DEFECT (C20): train_off_policy(memory=MultiStepReplayBuffer, n_step=True) raised "
          f"{type(e).__name__}: {e}  [{tb[-1].filename.split('/')[-1]}:{tb[-1].lineno}]")
    sys.exit(1)
ok = [a.steps[-1] for a in pop] == [20, 20] and len(fits) == 2
print("OK" if ok else f"accounting wrong: {[a.steps for a in pop]} {fits}")
sys.exit(0 if ok else 1)
