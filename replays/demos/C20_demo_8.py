"""C20 demo 8: non-vectorised multi-agent image env + swap_channels=True dies at the first
episode that ends inside a generation.

Both multi-agent loops re-reset a non-vectorised env when every agent is done
(train_multi_agent_off_policy.py:353-354, train_multi_agent_on_policy.py:327-328):
    if not is_vectorised:
        obs, info = env.reset()
but unlike the reset at the top of the generation (lines 236-241 / 217-222) the fresh
observation is not passed through obs_channels_to_first, so the next get_action() receives
an HxWxC image for a CxHxW network -> RuntimeError.  With a 50-step episode (no mid-generation
reset) the very same configuration trains fine.

Exit 1 = defect present, exit 0 = both loops complete for short and long episodes.
"""
import copy
import functools
import sys
import traceback
import warnings

warnings.filterwarnings("ignore")
import numpy as np
from gymnasium import spaces
from pettingzoo import ParallelEnv

from agilerl.components import MultiAgentReplayBuffer
from agilerl.training.train_multi_agent_off_policy import train_multi_agent_off_policy
from agilerl.training.train_multi_agent_on_policy import train_multi_agent_on_policy
from agilerl.utils.utils import create_population


class ImgPZ(ParallelEnv):
    metadata = {"name": "imgpz"}

    def __init__(self, ep_len):
        self.possible_agents = ["a_0", "b_0"]
        self.agents = list(self.possible_agents)
        self.ep_len, self.t, self.render_mode = ep_len, 0, None

    @functools.lru_cache(maxsize=None)
    def observation_space(self, agent):
        return spaces.Box(0, 1, (8, 8, 3), np.float32)  # channels last

    @functools.lru_cache(maxsize=None)
    def action_space(self, agent):
        return spaces.Discrete(2)

    def reset(self, seed=None, options=None):
        self.agents, self.t = list(self.possible_agents), 0
        return ({a: self.observation_space(a).sample() for a in self.agents},
                {a: {} for a in self.agents})

    def step(self, actions):
        self.t += 1
        done = self.t >= self.ep_len
        return ({a: self.observation_space(a).sample() for a in self.agents},
                {a: 1.0 for a in self.agents},
                {a: done for a in self.agents},
                {a: False for a in self.agents},
                {a: {} for a in self.agents})


NET = {"encoder_config": {"channel_size": [4], "kernel_size": [3], "stride_size": [1]},
       "head_config": {"hidden_size": [16]}}
failures, passed = [], []

for ep_len in (50, 3):
    for algo in ("MADDPG", "IPPO"):
        env = ImgPZ(ep_len)
        env.reset()
        ids = list(env.agents)
        osp = [spaces.Box(0, 1, (3, 8, 8), np.float32) for _ in ids]  # channels first
        asp = [env.action_space(a) for a in ids]
        HP = {"BATCH_SIZE": 4, "LEARN_STEP": 4, "AGENT_IDS": ids, "LR": 1e-3, "GAMMA": 0.99,
              "GAE_LAMBDA": 0.95, "ACTION_STD_INIT": 0.6, "CLIP_COEF": 0.2, "ENT_COEF": 0.01,
              "VF_COEF": 0.5, "MAX_GRAD_NORM": 0.5, "TARGET_KL": None, "UPDATE_EPOCHS": 1}
        pop = create_population(algo, osp, asp, copy.deepcopy(NET), HP, population_size=2)
        label = f"{algo}, swap_channels=True, non-vectorised, episode length {ep_len}"
        try:
            if algo == "IPPO":
                pop, fits = train_multi_agent_on_policy(
                    env, "imgpz", algo, pop, max_steps=30, evo_steps=8, eval_steps=2,
                    swap_channels=True, verbose=False)
            else:
                mem = MultiAgentReplayBuffer(
                    200, ["state", "action", "reward", "next_state", "done"], ids)
                pop, fits = train_multi_agent_off_policy(
                    env, "imgpz", algo, pop, mem, max_steps=16, evo_steps=8, eval_steps=2,
                    swap_channels=True, verbose=False)
        except Exception as e:  # noqa
            tb = [f for f in traceback.extract_tb(e.__traceback__)
                  if "/agilerl/training/" in f.filename]
            failures.append(f"{label}: {type(e).__name__}: {str(e)[:110]}...  "
                            f"[{tb[-1].filename.split('/')[-1]}:{tb[-1].lineno}]")
            continue
        if [a.steps[-1] for a in pop] != [16, 16]:
            failures.append(f"{label}: steps {[a.steps[-1] for a in pop]}")
        else:
            passed.append(label)

print()
for p in passed:
    print("  ok  :", p)
if failures:
    print("DEFECT (C20): an episode ending mid-generation breaks the rollout:")
    for f in failures:
        print("  FAIL:", f)
    sys.exit(1)
print("OK")
sys.exit(0)
