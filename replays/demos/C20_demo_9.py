"""C20 demo 9: with more sub-environments than evo_steps the step budget is never met.

train_off_policy.py:255 (and train_multi_agent_off_policy.py:244) roll out
`range(evo_steps // num_envs)` vector steps.  With evo_steps < num_envs that is range(0):
no environment step is taken, `agent.steps[-1] += 0`, and the outer
`while agent.steps[-1] < max_steps` loop evaluates the population forever
(train_on_policy uses ceil-division and does not have the problem).

The demo stops the run after 15 generations.  Exit 1 = budget never advances,
exit 0 = training terminates (or the configuration is rejected up-front).
"""
import sys
import warnings

warnings.filterwarnings("ignore")
import gymnasium as gym
import numpy as np
from gymnasium import spaces

from agilerl.algorithms import DQN
from agilerl.components import ReplayBuffer
from agilerl.training.train_off_policy import train_off_policy
from agilerl.utils.utils import create_population

COUNT = {"train_or_eval_steps": 0}


class CountEnv(gym.Env):
    def __init__(self):
        self.observation_space = spaces.Box(-1, 1, (4,), np.float32)
        self.action_space = spaces.Discrete(2)
        self.t = 0

    def reset(self, seed=None, options=None):
        super().reset(seed=seed)
        self.t = 0
        return self.observation_space.sample(), {}

    def step(self, action):
        COUNT["train_or_eval_steps"] += 1
        self.t += 1
        return self.observation_space.sample(), 1.0, self.t >= 7, False, {}


NUM_ENVS, EVO_STEPS, MAX_STEPS = 4, 3, 12
env = gym.vector.SyncVectorEnv([CountEnv for _ in range(NUM_ENVS)])
NET = {"encoder_config": {"hidden_size": [8]}, "head_config": {"hidden_size": [16]}}
pop = create_population(
    "DQN", env.single_observation_space, env.single_action_space, NET,
    {"BATCH_SIZE": 4, "LEARN_STEP": 1}, population_size=2, num_envs=NUM_ENVS,
)


class StillRunning(Exception):
    pass


generations = {"n": 0}
orig_test = DQN.test


def counting_test(self, *a, **k):
    if self is pop[0]:
        generations["n"] += 1
        if generations["n"] > 15:
            raise StillRunning
    return orig_test(self, *a, **k)


DQN.test = counting_test
try:
    out_pop, fits = train_off_policy(
        env, "count", "DQN", pop, ReplayBuffer(200),
        max_steps=MAX_STEPS, evo_steps=EVO_STEPS, eval_steps=2, verbose=False,
    )
except StillRunning:
    print()
    print(f"DEFECT (C20): num_envs={NUM_ENVS} > evo_steps={EVO_STEPS}: after 15 generations "
          f"agent.steps = {[a.steps[-1] for a in pop]} (budget max_steps={MAX_STEPS} can "
          f"never be met; every generation takes 0 training steps, only evaluation runs)")
    sys.exit(1)
except (AssertionError, ValueError) as e:
    if COUNT["train_or_eval_steps"] == 0:
        print("OK: configuration rejected up-front:", e)
        sys.exit(0)
    raise
print("OK: terminated with steps", [a.steps[-1] for a in out_pop])
sys.exit(0)
