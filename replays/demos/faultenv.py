"""Small hand-written PettingZoo ParallelEnv with programmable faults (helper for demos)."""
import os
import signal
import threading
import time

import numpy as np
from gymnasium import spaces
from pettingzoo import ParallelEnv


class TwoArgError(Exception):
    """An exception type whose constructor needs two positional arguments."""

    def __init__(self, code, detail):
        super().__init__(code, detail)
        self.code = code
        self.detail = detail


class FaultEnv(ParallelEnv):
    metadata = {"name": "fault_env"}
    render_mode = None

    def __init__(self, fault=None):
        # fault: dict(cmd="reset"|"step"|"call"|"setattr", at=int, kind="raise"|"sleep"|"kill", secs=float, exc=callable)
        self.possible_agents = ["a0", "a1"]
        self.agents = self.possible_agents[:]
        self.fault = fault or {}
        self.counts = {"reset": 0, "step": 0, "call": 0, "setattr": 0}
        self.t = 0
        self.tag = "tag"

    def observation_space(self, agent):
        return spaces.Box(-1.0, 1.0, (2,), np.float32)

    def action_space(self, agent):
        return spaces.Discrete(2)

    def _maybe_fault(self, cmd):
        n = self.counts[cmd]
        self.counts[cmd] += 1
        f = self.fault
        if f.get("cmd") == cmd and f.get("at", 0) == n:
            kind = f["kind"]
            if kind == "raise":
                exc = f.get("exc")
                raise (exc() if exc else ValueError(f"boom in {cmd}"))
            if kind == "sleep":
                time.sleep(f.get("secs", 5.0))
            if kind == "kill":
                os.kill(os.getpid(), signal.SIGKILL)

    def reset(self, seed=None, options=None):
        self._maybe_fault("reset")
        self.agents = self.possible_agents[:]
        self.t = 0
        obs = {a: np.zeros(2, np.float32) for a in self.agents}
        return obs, {a: {} for a in self.agents}

    def step(self, actions):
        self._maybe_fault("step")
        self.t += 1
        obs = {a: np.full(2, self.t / 100.0, np.float32) for a in self.agents}
        rew = {a: float(self.t) for a in self.agents}
        term = {a: False for a in self.agents}
        trunc = {a: False for a in self.agents}
        return obs, rew, term, trunc, {a: {} for a in self.agents}

    def ping(self):
        self._maybe_fault("call")
        return "pong"

    @property
    def guarded(self):
        return 0

    @guarded.setter
    def guarded(self, v):
        self._maybe_fault("setattr")

    def close(self):
        pass


def make(fault=None):
    return lambda: FaultEnv(fault)


ACTIONS = lambda n: {"a0": np.zeros(n, dtype=int), "a1": np.zeros(n, dtype=int)}  # noqa: E731
ACTION_LIST = lambda n: [[0, 0] for _ in range(n)]  # noqa: E731


class Watchdog:
    """Run fn() in a daemon thread; report whether it finished within `limit` seconds."""

    def __init__(self, fn, limit):
        self.result = None
        self.exc = None
        self.done = False

        def run():
            try:
                self.result = fn()
            except BaseException as e:  # noqa: BLE001
                self.exc = e
            self.done = True

        t0 = time.perf_counter()
        th = threading.Thread(target=run, daemon=True)
        th.start()
        th.join(limit)
        self.elapsed = time.perf_counter() - t0
        self.hung = not self.done


def kill_all(vec):
    for p in vec.processes:
        if p.is_alive():
            p.kill()
    for p in vec.processes:
        p.join(2)
