"""Native replay driver, run under /venv/bin/python against /repo (PYTHONPATH is set by pyvc.main).

usage: run.py <module>:<function>   (payload as JSON on stdin)  -> last stdout line is a JSON verdict:
  {"status": "pass"|"fail"|"error", "cases": n, "detail": ..., "input": ..., "witness_key": ...}
An adapter evaluates the *contract* (the property's postcondition) natively on the real function.
"""
import importlib
import json
import os
import sys
import traceback

sys.path.insert(0, os.path.dirname(os.path.dirname(os.path.abspath(__file__))))


def main():
    target = sys.argv[1]
    payload = json.loads(sys.stdin.read() or "{}")
    modname, fn = target.split(":")
    import signal

    def _alarm(sig, frm):
        raise TimeoutError("replay adapter exceeded its time budget")
    signal.signal(signal.SIGALRM, _alarm)
    signal.alarm(int(payload.get("budget_s", 240)))
    try:
        mod = importlib.import_module("replays." + modname)
        out = getattr(mod, fn)(payload)
    except TimeoutError:
        out = {"status": "timeout", "detail": "adapter exceeded its time budget (inconclusive, machine load?)"}
    except Exception:
        out = {"status": "error", "detail": traceback.format_exc()[-3000:]}
    print(json.dumps(out, default=str))


if __name__ == "__main__":
    main()
