"""Native replay driver, run under /venv/bin/python against /repo (PYTHONPATH is set by pyvc.main).

usage: run.py <module>:<function>   (payload as JSON on stdin)  -> last stdout line is a JSON verdict:
  {"status": "pass"|"fail"|"error", "cases": n, "detail": ..., "input": ..., "witness_key": ...}
An adapter evaluates the *contract* (the property's postcondition) natively on the real function.
"""
import importlib
import json
import os
import sys
import traceback

sys.path.insert(0, os.path.dirname(os.path.dirname(os.path.abspath(__file__))))


def main():
    target = sys.argv[1]
    payload = json.loads(sys.stdin.read() or "{}")
    modname, fn = target.split(":")
    import signal

    def _alarm(sig, frm):
        raise TimeoutError("replay adapter exceeded its time budget")
    signal.signal(signal.SIGALRM, _alarm)
    signal.alarm(int(payload.get("budget_s", 240)))
    try:
        mod = importlib.import_module("replays." + modname)
        out = getattr(mod, fn)(payload)
    except TimeoutError:
        out = {"status": "timeout", "detail": "adapter exceeded its time budget (inconclusive, machine load?)"}
    except Exception as e:
        # An exception that escapes from the code under test (a frame in agilerl/ below the adapter's own frame) on an input
        # the adapter passes on the unchanged tree is a failing input: the function raised where its contract promises a
        # result.  Exceptions raised by the adapter itself stay adapter errors.
        frames = traceback.extract_tb(e.__traceback__)
        names = [f.filename for f in frames]
        last_adapter = max([i for i, n in enumerate(names) if "/replays/" in n], default=-1)
        in_repo = [i for i, n in enumerate(names) if "/agilerl/" in n and i > last_adapter]
        if in_repo and not isinstance(e, (ImportError, SyntaxError, MemoryError)):
            where = frames[in_repo[-1]]
            out = {"status": "fail", "witness_key": "exception-in-code-under-test",
                   "detail": f"{type(e).__name__}: {e} raised at {where.filename.split('/agilerl/')[-1]}:{where.lineno} ({where.name}) on an input of the adapter's "
                             f"search space; traceback tail: {traceback.format_exc()[-1200:]}"}
        else:
            out = {"status": "error", "detail": traceback.format_exc()[-3000:]}
    print(json.dumps(out, default=str))


if __name__ == "__main__":
    main()
