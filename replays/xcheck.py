"""CPython side of the encoding cross-check: run the real function on real objects built without __init__."""
import importlib

import numpy as np
import torch


def _resolve(qual):
    parts = qual.split(".")
    for k in range(len(parts), 0, -1):
        try:
            m = importlib.import_module(".".join(parts[:k]))
            obj = m
            for p in parts[k:]:
                obj = getattr(obj, p)
            return obj
        except (ImportError, AttributeError):
            continue
    raise ImportError(qual)


def native(payload):
    import operator
    out = []
    for c in payload["cases"]:
        cls = _resolve(c["cls"])
        o = object.__new__(cls)
        for k, v in c["fields"].items():
            if isinstance(v, str) and v.startswith("ref:"):
                v = {"operator.add": operator.add, "builtins.int": int, "builtins.float": float}[v[4:]]
            setattr(o, k, list(v) if isinstance(v, list) else v)
        fn = _resolve(c["qual"])
        draws = list(c.get("draws", []))
        orig = torch.rand
        if "torch.rand" in c.get("stubs", []):
            torch.rand = lambda *a, **k: torch.tensor([draws.pop(0)])
        try:
            try:
                r = fn(o, **c["args"])
                rec = {"outcome": "return", "result": r}
            except Exception as e:
                rec = {"outcome": "raise", "result": type(e).__name__}
        finally:
            torch.rand = orig
        rec["fields"] = {k: (list(getattr(o, k)) if isinstance(getattr(o, k, None), list) else getattr(o, k, None)) for k in c["fields"]
                         if not callable(getattr(o, k, None))}
        out.append(rec)
    return {"status": "pass", "results": out}
