#!/bin/bash
# offline toolchain check only: nothing is fetched or built
set -e
python3-vt -c "import z3; assert z3.get_version_string().startswith('5'), z3.get_version_string()"
/venv/bin/python -c "import agilerl, torch"
test -x /usr/bin/z3 && test -x /usr/bin/cvc5
echo setup-ok
