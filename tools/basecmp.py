#!/usr/bin/env python3
"""Run the given test files of /repo and compare with the pinned baseline: every baseline-passing test of those files must pass.
usage: tools/basecmp.py tests/test_algorithms/test_ippo.py [...]   (all files when no argument; -n 12 workers)"""
import ast
import json
import os
import subprocess
import sys
import tempfile
import xml.etree.ElementTree as ET

b = json.load(open("/root/.vp/BASELINE.json"))
sp = b["stable_pass"]
sp = set(ast.literal_eval(sp) if isinstance(sp, str) else sp)
files = sys.argv[1:]
mods = {f[:-3].replace("/", ".") for f in files}
want = {t for t in sp if not files or t.split("::")[0] in mods}
out = tempfile.mktemp(suffix=".xml", dir="/tmp")
subprocess.run(["/venv/bin/python", "-m", "pytest", "-q", "-p", "no:cacheprovider", "--timeout=900", "--continue-on-collection-errors", "-n", "12",
                f"--junitxml={out}"] + files, cwd="/repo", stdout=subprocess.DEVNULL, stderr=subprocess.DEVNULL)
passed = set()
for tc in ET.parse(out).getroot().iter("testcase"):
    if not any(ch.tag in ("failure", "error", "skipped") for ch in tc):
        passed.add(f"{tc.get('classname')}::{tc.get('name')}")
os.remove(out)
missing = sorted(want - passed)
print(f"baseline-passing tests in scope: {len(want)}; passing now: {len(want & passed)}; newly failing: {len(missing)}; newly passing: {len(passed - sp)}")
for m in missing[:20]:
    print("  FAIL", m)
sys.exit(1 if missing else 0)
