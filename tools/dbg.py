#!/usr/bin/env python3-vt
"""debug helper: python3-vt tools/dbg.py C11 <func-substr> <oblig-substr>  -> tries to find a minimal set of assumptions"""
import sys, time, importlib, os
sys.path.insert(0, os.path.dirname(os.path.dirname(os.path.abspath(__file__))))
import z3
from pyvc.contract import PyvcExecutor
pid, fsub, osub = sys.argv[1:4]
P = importlib.import_module('contracts.' + pid).build('quick')
ex = PyvcExecutor(P.contracts, P.lib, pid, P.shapes); ex.axioms = P.axioms; ex.specns = P.specns; ex.vacuity = []
for c in P.verify:
    if fsub in c.qual + (c.variant or ''):
        ex.verify(c)
obs = [o for o in ex.obligs if osub in o.name]
print(len(obs), 'matching;', [o.name for o in obs][:5])
o = obs[0]
print('GOAL', o.goal)
def chk(assm, ms=5000):
    s = z3.Solver(); s.set('timeout', ms)
    for a in P.axioms: s.add(a)
    for a in assm: s.add(a)
    s.add(z3.Not(o.goal)); t = time.time(); r = s.check(); return str(r), round(time.time() - t, 2)
print('full', chk(o.assumptions))
if '--min' in sys.argv:
    cur = list(o.assumptions)
    i = 0
    while i < len(cur):
        trial = cur[:i] + cur[i+1:]
        r, t = chk(trial, 3000)
        if r == 'unsat': cur = trial
        else: i += 1
    print('minimal core size', len(cur))
    for a in cur: print('  ', str(a)[:300])
if '--list' in sys.argv:
    for a in o.assumptions: print('  *', str(a)[:200])
if '--qf' in sys.argv:
    from pyvc.solve import has_quant
    qf = [a for a in o.assumptions if not has_quant(a)]
    print('qf-only', chk(qf))
    for a in qf: print('  ', str(a)[:200])
