#!/usr/bin/env python3
"""Regenerates the table of DESIGN.md I.5 from known_findings.json (run after every change of that file)."""
import json, re
from collections import OrderedDict
kf = json.load(open('/verif/known_findings.json'))['findings']
fixed = [e for e in kf if e['status'] == 'fixed']
known = [e for e in kf if e['status'] == 'known']
g = OrderedDict()
for e in fixed:
    g.setdefault((e['property'], e['commit']), []).append(e)
rows = []
for (p, c), es in sorted(g.items()):
    what = '; '.join(dict.fromkeys(x['what'] for x in es))
    how = ', '.join(dict.fromkeys('`' + x['obligation'] + '`' for x in es))
    rows.append(f"| {p} | {c} | {what} | {how} |")
krows = [f"| {e['property']} | — (**known**) | {e['what']} — *not repaired:* {e.get('why_not_fixed', '')} | `{e['obligation']}` |" for e in sorted(known, key=lambda e: e['property'])]
p = '/verif/DESIGN.md'
s = open(p).read()
a = s.index("| property | commit | what failed | first failing obligation |")
b = s.index("\n\n", a)
s = s[:a] + "| property | commit | what failed | first failing obligation |\n|---|---|---|---|\n" + '\n'.join(rows + krows) + s[b:]
s = re.sub(r"\d+ repairs in \d+ `fix:` commits, \d+ recorded findings", f"{len(g)} repairs in {len(set(c for (_, c) in g))} `fix:` commits, {len(known)} recorded findings", s)
open(p, 'w').write(s)
print(len(rows), "fixed rows,", len(krows), "known rows")
