#!/usr/bin/env python3
"""usage: tools/mark_fixed.py <demo name> [<demo name> ...]   - the last commit of /repo repaired the known finding(s) detected by these scripts"""
import json, subprocess, sys
c = subprocess.check_output(["git", "-C", "/repo", "log", "--format=%h", "-1"]).decode().strip()
ip, kp = "/verif/replays/demos/INDEX.json", "/verif/known_findings.json"
idx, kf = json.load(open(ip)), json.load(open(kp))
for d in sys.argv[1:]:
    e = idx[d]
    e.update(status="fixed", commit=c, quick=False)
    for k in kf["findings"]:
        if k.get("obligation") == "native:" + d and k.get("status") == "known":
            k.pop("why_not_fixed", None)
            k.update(status="fixed", commit=c, line=f"fixed: property={k['property']} {c} {k['what'][:110]}")
json.dump(idx, open(ip, "w"), indent=1)
json.dump(kf, open(kp, "w"), indent=1)
print("marked", sys.argv[1:], "fixed by", c)
