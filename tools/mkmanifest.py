#!/usr/bin/env python3
"""Regenerates MANIFEST.json from the table below (kept valid at all times)."""
import json, os
HERE = os.path.dirname(os.path.dirname(os.path.abspath(__file__)))
CHECKS = {
 "C05": ("proof", "TournamentSelection._elitism/_tournament/select proved for every population size, tournament size, window, elitism flag, fitness assignment (ties included) and every random draw: the elite is a copy of an agent with maximal mean of the last scores, the rank order is consistent with those means, each tournament winner is the best-ranked of its draw, the new population has the configured size, its first member is the elite (with elitism), the others carry fresh consecutive indices above every old index.",
         "numpy argsort/argmax/randint/mean contracts; clone() by an ASSUMED contract (C01); NaN/empty fitness excluded."),
 "C06": ("proof", "RLParameter.mutate (float and int) and Mutations.rl_hyperparam_mutation with every callee inlined from the real source (HyperparameterConfig.sample/__bool__, get_lr_names, EvolvableAlgorithm.__setattr__, reinit_opt, OptimizerWrapper.__init__, init_from_single/multiple): for all values, ranges, factors and draws exactly one configured hyper-parameter becomes dtype(clip(own current value x shrink|grow, min, max)), all others are unchanged, a mutated learning rate is the lr of every param group of the rebuilt optimizer over the agent's current networks, and the agent reports the mutated name.",
         "registry layout enumerated (1-3 hyper-parameters, 1-2 optimizers, shared optimizer), values symbolic; torch.optim constructor contract; floats as reals; DeepSpeed branch excluded."),
 "C14": ("proof", "DQN._get_action proved on a generic batch row for every mask with a legal action, every epsilon and EVERY random draw: the returned index is in range and unmasked; in the policy branch it is the best legal action. DDPG.get_action and TD3.get_action: the returned action is inside [low, high] component-wise for training and evaluation and every noise value.",
         "finite network outputs, 0/1 masks, low<=high; torch rand_like/argmax/masked_fill/where and numpy clip contracts; row-generic execution. CQN/Rainbow/bandits/PPO/multi-agent only through the native adapters (bounded)."),
 "C15": ("proof", "maybe_add_batch_dim and get_vect_dim proved in shape mode for every space rank 0..3, numpy and torch inputs, every input form (unbatched, batched, batch-of-one, (step, env, ...)) with symbolic dimension values: result shape is (B_flat, *space_shape), wrong ranks raise ValueError, the number of vectorised environments is the leading dimension exactly when the input has one. Value maps of preprocess_observation (one-hot, image scaling, row-wise consistency) are a bounded native stand-in.",
         "shape model of expand_dims/unsqueeze/reshape(-1,*s); gymnasium space attributes; element maps, Dict/Tuple and multi-agent assembly only bounded (native)."),
 "C17": ("proof", "The GAE loops of PPO.learn and IPPO._learn_individual (regions of the real functions) proved equal to the recursion of the statement for every rollout length, number of envs, placement of done flags, gamma, lambda (loop invariant against a recursively defined spec function); returns = A + V; no-leak lemma across an episode start by induction; flatten_experiences / get_experiences_samples apply one index map / one index vector to all six tensors; known finding: IPPO row misalignment (native, bounded).",
         "A-REAL; tensor model (element-wise ops, row indexing, transpose, row-major reshape as an uninterpreted layout); critic output free; IPPO row alignment and PPO end-to-end rows only bounded (native)."),
 "C18": ("proof", "The projection region of RainbowDQN._dqn_loss (real statements, executed on a generic tensor element) proved for every number of atoms, support range, reward, done flag, gamma and source probability: indices 0 <= L <= u <= N-1, weights >= 0, w_L + w_u = p (mass), w_L*L + w_u*u = p*b and its support-unit form (mean), b*dz+v_min = clip(r + gamma(1-d)z); AST wiring obligations: the two index_add_ scatter exactly those weights at L+offset / u+offset, the loss is -(proj*log q(a)).sum(1), the target distribution comes from the target net at the online greedy action.",
         "A-REAL (float32 rounding of b not modelled); index_add_ linearity and offset[i,j]=i*N trusted (per-element facts sum to per-row mass/mean); support[j]=v_min+j*dz trusted."),
 "C08": ("proof", "Target statements of DQN.update, CQN.learn, DDPG.learn, TD3.learn (one-statement regions of the real functions, generic element): target = r + gamma(1-d)Q_target, so d=1 gives r; soft_update of DQN, CQN, RainbowDQN, DDPG, TD3, MADDPG, MATD3 proved by a loop invariant with the postcondition stated over ALL weights of the target network (tau*online + (1-tau)*old); DQN.init_hook proved to leave the target's weights in the detached TensorDict that DQN.soft_update iterates; AST wiring obligations for the source of Q_target, the delayed updates and Rainbow's n-step fields.",
         "A-REAL; one generic real per parameter tensor; tensordict from_module/to_module/clone contract; parameters() order correspondence; autograd (what is minimised) trusted; MADDPG/MATD3 target expressions not covered."),
 "C09": ("proof", "ReplayBuffer.add/sample/clear/__len__ proved against a ring-buffer representation invariant with a ghost history (all capacities, cursor positions, batch widths incl. wrap exactly at/over the end); storage = last min(N,added) rows; sampled rows are stored rows, distinct indices, fresh copies. Multi-agent buffer: bounded native check only.",
         "TensorDict row model (slice views, slice assignment copies rows, advanced indexing returns a copy), torch.randperm is a permutation, ints mathematical; Transition shape normalisation and MultiAgentReplayBuffer are bounded stand-ins."),
 "C10": ("proof", "MultiStepReplayBuffer._get_n_step_info and .add proved for every n, gamma, number of envs and placement of done flags: the fused row is the discounted sum up to a cut index j with no terminal step of that env before j, cut only at the window end or where some env ends, with next_obs/done of step j and obs/action of step 0; add returns the first window element whose (obs, action) equal those of the row appended to the n-step storage (alignment with the 1-step buffer).",
         "A-REAL; per-env vector model of TensorDict fields; deque(maxlen) semantics; ReplayBuffer.add by its C09 contract; stream continuity across resets is a caller precondition."),
 "C11": ("proof", "Segment trees (__init__, __setitem__, __getitem__, _operate_helper, operate, retrieve) and PrioritizedReplayBuffer (__init__, add, _update_priority, _sample_proportional, _calculate_weights, update_priorities, sample, clear) proved over reals for all capacities/cursors/draws: tree well-formedness, root = fold of leaves (sum and min), retrieve returns the index whose mass interval contains the draw, sampled indices are stored slots, new items get max priority, weights = (N P(i))^-beta / max in (0,1].",
         "A-REAL (floats as reals: the descent is not exact in IEEE doubles), pow axioms, is_pow2 axioms, induction schema for the fold lemmas, TensorDict row model, torch.rand in [0,1)."),
}
def main():
    checks = []
    for pid, (cat, text, note) in sorted(CHECKS.items()):
        checks.append({"property_id": pid, "quick_cmd": f"./check {pid} quick", "thorough_cmd": f"./check {pid} thorough",
                       "evidence_file": f"evidence/{pid}.json", "engine": "pyvc",
                       "level_claimed": {"category": cat, "text": text, "design_ref": f"DESIGN.md section 5 ({pid})"},
                       "level_note": note,
                       "technique": "contract-based deductive verification: VCs generated from the real Python AST against sidecar contracts, discharged by z3/cvc5"})
    props = [json.loads(l)["id"] for l in open(os.path.join(HERE, "properties.jsonl"))]
    na = [{"property_id": p, "reason": "machinery not built yet in this session (see DESIGN.md section 8); not a claim that the technique cannot apply"}
          for p in props if p not in CHECKS]
    m = {"version": 1,
         "setup_cmd": "./setup.sh",
         "hooks": {"guard": "AGILERL_VERIF", "enable": "no hooks: contracts are sidecar files under /verif/contracts; /repo is read as-is (PYVC_REPO selects another tree)",
                   "baseline_off_cmd": "cd /repo && /venv/bin/python -m pytest -ra -q -p no:cacheprovider --timeout=900 --continue-on-collection-errors",
                   "source_commits": [], "add_only": True},
         "engines": [{"name": "pyvc", "path": "pyvc/", "serves_properties": sorted(CHECKS), "kind_free_text": "Python-AST symbolic executor / VC generator with sidecar contracts; z3 5.1 + z3 4.8.12 + cvc5 portfolio; native replay adapters under replays/"}],
         "checks": checks,
         "notes": "exit 0 held / 1 VIOLATION / 2 undecided / 3 checker fault. Repairs of genuine defects are 'fix:' commits in /repo, listed in known_findings.json.",
         "not_applicable": na}
    json.dump(m, open(os.path.join(HERE, "MANIFEST.json"), "w"), indent=1)
main()
