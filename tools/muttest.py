#!/usr/bin/env python3
"""Apply one textual edit to a scratch copy of /repo/agilerl and run a check against it.
usage: muttest.py <Cnn> <relpath> <old> <new> [tier]      (scratch copy under a temp dir, removed afterwards)"""
import os, shutil, subprocess, sys, tempfile
pid, rel, old, new = sys.argv[1:5]
tier = sys.argv[5] if len(sys.argv) > 5 else "quick"
d = tempfile.mkdtemp(prefix="pyvc_mut_")
try:
    shutil.copytree("/repo/agilerl", os.path.join(d, "agilerl"))
    p = os.path.join(d, rel)
    s = open(p).read()
    if s.count(old) != 1:
        print(f"pattern occurs {s.count(old)} times"); sys.exit(9)
    open(p, "w").write(s.replace(old, new))
    env = dict(os.environ, PYVC_REPO=d)
    r = subprocess.run([os.path.join(os.path.dirname(os.path.dirname(os.path.abspath(__file__))), "check"), pid, tier], env=env,
                       capture_output=True, text=True)
    print(r.stdout[-1500:], r.stderr[-1500:])
    print("exit", r.returncode)
finally:
    shutil.rmtree(d)
