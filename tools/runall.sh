#!/bin/bash
# run every registered quick check on the clean tree, validate evidence files (run before committing evidence)
cd "$(dirname "$0")/.."
test -z "$(git -C /repo status --porcelain)" || { echo "/repo has uncommitted changes"; exit 9; }
rc=0
for p in $(python3 -c "import json;print(' '.join(c['property_id'] for c in json.load(open('MANIFEST.json'))['checks']))"); do
  ./check $p ${1:-quick} | tail -1; r=${PIPESTATUS[0]}; [ $r -ne 0 ] && { echo "  -> $p exit $r"; rc=1; }
done
python3-vt - <<'P'
import json, jsonschema, glob
S = json.load(open('/root/.vp/EVIDENCE.schema.json'))
for f in sorted(glob.glob('evidence/*.json')):
    e = json.load(open(f)); jsonschema.validate(e, S)
    c = e['coverage']; assert c['obligations'] == c['discharged'] >= 1, f
jsonschema.validate(json.load(open('MANIFEST.json')), json.load(open('/root/.vp/MANIFEST.schema.json')))
print('evidence+manifest valid')
P
exit $rc
