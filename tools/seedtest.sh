#!/bin/bash
# usage: tools/seedtest.sh <patchfile> <Cnn> [tier]   - applies a seeded change to /repo, runs the check, always reverts
set -u
cd "$(dirname "$0")/.."
git -C /repo apply "$(realpath "$1")" || { echo "patch does not apply"; exit 9; }
./check "$2" "${3:-quick}"; rc=$?
git -C /repo checkout -- . 
echo "exit=$rc"
