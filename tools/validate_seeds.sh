#!/bin/bash
# For every seeded/<id>: in a scratch worktree of /repo HEAD, the demo must PASS (exit 0) on HEAD and FAIL (exit 1) with the patch applied.
cd "$(dirname "$0")/.."
WT=$(mktemp -d /tmp/seedval.XXXX); rmdir $WT
git -C /repo worktree remove --force $WT 2>/dev/null
git -C /repo worktree add --detach $WT HEAD -q || exit 9
for d in seeded/*/; do
  id=$(basename $d)
  [ -n "$1" ] && [ "$1" != "$id" ] && continue
  cp $d/demo_$id.py $WT/
  ( cd $WT && OMP_NUM_THREADS=2 timeout 1200 /venv/bin/python demo_$id.py >/tmp/seedval_$id.orig.log 2>&1 ); o=$?
  if git -C $WT apply "$(realpath $d/patch.diff)" 2>/dev/null; then
    ( cd $WT && OMP_NUM_THREADS=2 timeout 1200 /venv/bin/python demo_$id.py >/tmp/seedval_$id.mut.log 2>&1 ); m=$?
    git -C $WT checkout -- . 
  else m="patch-does-not-apply"; fi
  echo "$id original_exit=$o patched_exit=$m"
done
git -C /repo worktree remove --force $WT
